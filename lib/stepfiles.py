"""Extracts (input, expected) pairs from /repo/tests/step*.mal (the kanaka/mal test format)."""
import glob, json, os, re


def pairs(repo="/repo"):
    out = []
    for path in sorted(glob.glob(os.path.join(repo, "tests", "step*.mal"))):
        name = os.path.basename(path)
        pending = None
        idx = 0
        for line in open(path, encoding="utf-8", errors="replace").read().split("\n"):
            if line.startswith(";=>"):
                if pending is not None:
                    pending["expect"] = line[3:]
                    pending["has"] = 1
                continue
            if line.startswith(";;") or line.startswith(";>>>") or line.startswith(";/") or line.strip() == "":
                continue
            if line.startswith(";"):
                continue
            if pending is not None:
                out.append(pending)
            idx += 1
            pending = {"file": name, "idx": idx, "input": line, "expect": "", "has": 0}
        if pending is not None:
            out.append(pending)
    return out


if __name__ == "__main__":
    ps = pairs()
    print(len(ps), "inputs,", sum(p["has"] for p in ps), "with an expected value")
