"""Per-property check drivers.  Each function receives a vrun.Check."""
from vrun import InfraError, log  # noqa: F401

CHECKS = {}


def check(pid):
    def deco(f):
        CHECKS[pid] = f
        return f
    return deco


def cfg(spec="Spec", constants=None, invariants=(), props=(), extra=""):
    out = ["SPECIFICATION %s" % spec]
    for k, v in (constants or {}).items():
        out.append("CONSTANT %s = %s" % (k, v))
    for i in invariants:
        out.append("INVARIANT %s" % i)
    for p in props:
        out.append("PROPERTY %s" % p)
    out.append("CHECK_DEADLOCK FALSE")
    if extra:
        out.append(extra)
    return "\n".join(out) + "\n"


def gen_and_replay(ck, module, constants, timeout=900, replay_args=None, workers=None):
    """Direction A: TLC enumerates cases with their allowed outcomes; replay on the real code."""
    r = ck.tlc(module, cfg(constants=constants), timeout=timeout, workers=workers)
    ck.tlc_ok(r, module)
    if not r.cases:
        raise InfraError("%s produced no cases" % module)
    args = list(replay_args or [])
    if r.ctx:
        args += ck.write_ctx(r.ctx)
    ck.replay(r.cases, args=args)
    return r


@check("C01")
def c01(ck):
    ck.rule = ("every program of <= MaxSize nodes over the GenC01 grammar (11 leaves incl. a too-few-arguments call, 7 unary, 10 binary, "
               "5 ternary forms of def/let/if/do/fn/&/quote/calls) plus a random sample of larger ones, each "
               "evaluated by Def.tla (definition layer) and replayed through lisp.EVAL in a fresh environment; "
               "compared: outcome kind, value, effect log, final globals x y. distinct = distinct program "
               "texts whose allowed outcome is not 'unspec'/'div'")
    if ck.quick:
        consts = {"MaxSize": 4, "SampleSize": 6, "SampleN": 3000}
    else:
        # (all programs of 5 nodes would be 2.1 M with the grammar as it has grown: 4 exhaustively, 5 sampled)
        consts = {"MaxSize": 4, "SampleSize": 5, "SampleN": 250000}
    r = gen_and_replay(ck, "GenC01", consts, timeout=1500)
    ck.exhaustive = True
    ck.extra["bounds"] = consts
    random_programs(ck, 2000 if ck.quick else 40000, 8, seed_offset=101)
    machine_refines_def(ck, "c01", 3 if ck.quick else 4)
    evaluator_traces(ck, "c01", 2 if ck.quick else 3)
    if not ck.quick:
        oracle_stepfiles(ck)


@check("C13")
def c13(ck):
    ck.rule = ("every collection builtin of the property (49 names) x every argument tuple of arity 0..2 over a "
               "33-value pool and arity 3 over a pool prefix; allowed outcome from Coll.tla/Def.tla; replayed as "
               "(f 'a1 'a2 ..) through lisp.EVAL in a fresh environment; purity: one value (12 expressions whose result "
               "the reader/evaluator builds) passed twice to the same builtin with different other arguments, from "
               "text: both results the model's, the value intact; distinct = distinct calls on which the oracle does "
               "not abstain")
    consts = {"MaxAr": 2, "Pool3": 8 if ck.quick else 16, "Pure2": 3 if ck.quick else 10}
    oracle_stepfiles(ck)
    gen_and_replay(ck, "GenC13", consts, timeout=1500)
    ck.exhaustive = True
    ck.extra["bounds"] = consts
    # direction B: random COMPOSITIONS of the builtins (up to 10 nested calls), explained by Def/Coll
    random_programs(ck, 3000 if ck.quick else 60000, 10, seed_offset=1313, mode="coll")


def write_ndjson(path, rows):
    import json
    with open(path, "w") as f:
        for r in rows:
            f.write(json.dumps(r, ensure_ascii=False) + "\n")


@check("C14")
def c14(ck):
    import os
    ck.rule = ("(= a b) for every ordered pair of a 72-expression pool of data values built along different "
               "construction paths; allowed result = StructEq of the values Def.tla computes; replayed through "
               "lisp.EVAL; then the OBSERVED Boolean matrix is validated by TraceEq.tla (reflexive, symmetric, "
               "transitive). distinct = distinct ordered pairs")
    r = gen_and_replay_keep(ck, "GenC14", {"Mode": '"pairs"'})
    # operands derived from ONE value (possible structure sharing in the implementation)
    gen_and_replay(ck, "GenC14", {"Mode": '"shared"'})
    ck.exhaustive = True
    # Direction B: the observed relation must be an equivalence (checked by TLC on the recorded matrix)
    rows = {}
    for c, v in r:
        o = v.get("obs", {})
        eq = 1 if (o.get("k") == "val" and o.get("v", {}).get("t") == "bool" and o["v"].get("i") == 1) else 0
        rows[(c["i"], c["j"])] = eq
    n = max(i for i, _ in rows)
    path = os.path.join(ck.scratch, "eqmatrix.ndjson")
    write_ndjson(path, [{"i": i, "j": j, "eq": rows[(i, j)]} for i in range(1, n + 1) for j in range(1, n + 1)])
    t = ck.tlc("TraceEq", cfg(invariants=["Reflexive", "Symmetric", "Transitive"]), workers=1,
               env={"VERIF_TRACE": path}, want_cases=False, timeout=600)
    ck.traces_validated += 1
    if t.exit == 12 and t.violated:
        # localise: which law fails on the observed matrix; reported only because the harness observed it
        ck.report("relation:%s" % t.violated, "observed (= a b) matrix is not %s" % t.violated.lower(),
                  {"case": {"kind": "eqmatrix", "law": t.violated}, "tlc_tail": tail(t.stdout_path)})
    elif t.exit != 0:
        raise InfraError("TraceEq failed: exit %s\n%s" % (t.exit, tail(t.stdout_path)))


def tail(path, n=30):
    from vrun import tail_file
    return tail_file(path, n)


def gen_and_replay_keep(ck, module, constants, timeout=900):
    """like gen_and_replay but returns [(case, verdict)]"""
    r = ck.tlc(module, cfg(constants=constants), timeout=timeout)
    ck.tlc_ok(r, module)
    args = ck.write_ctx(r.ctx) if r.ctx else []
    vs = ck.replay(r.cases, args=args)
    byid = {v["id"]: v for v in vs}
    return [(c, byid[c["id"]]) for c in r.cases]


@check("C03")
def c03(ck):
    ck.rule = ("every program of <= MaxSize nodes over the GenC03 grammar (16 leaves incl. raise!/boom!/boom-str!/"
               "domain error/undefined symbol and thrown objects of every kind, 16 unary, 7 binary, 1 ternary "
               "try/catch/finally/throw forms) plus a random sample of larger ones; allowed outcome from Def.tla; "
               "compared: outcome kind, value or thrown object (structural; sentinel class for Go errors), effect "
               "log (body/handler/finally executions in order), global e after the program")
    consts = {"MaxSize": 3, "SampleSize": 5, "SampleN": 4000} if ck.quick else \
             {"MaxSize": 4, "SampleSize": 6, "SampleN": 50000}
    gen_and_replay(ck, "GenC03", consts, timeout=1500)
    ck.exhaustive = True
    ck.extra["bounds"] = consts
    random_programs(ck, 2000 if ck.quick else 40000, 8, seed_offset=303)
    machine_refines_def(ck, "c03", 2 if ck.quick else 3)
    evaluator_traces(ck, "c03", 2)


@check("C12")
def c12(ck):
    ck.rule = ("mode qq: every quasiquote template of <= MaxSize nodes (15 leaves incl. ~x ~@xs ~@empty ~@vector, "
               "effects inside unquotes, unquote/splice-unquote symbols in non-head position; list/vector/map "
               "constructors) evaluated as template SUBSTITUTION by Def.tla; mode mac: every macro-call program of "
               "<= MaxSize nodes over 7 user macros + cond/or/and/->/->> and the routes c | (macroexpand c) | "
               "(eval (macroexpand c)); mode lib: every program of <= MaxSize nodes over the lisp-defined protocol library "
               "(defprotocol extend satisfies? find-type), memoize, foldr, reduce-kv, the library's source evaluated by "
               "Def.tla; compared: value, effects, generated symbols up to renaming")
    q = ck.quick
    for mode, consts in (("qq", {"MaxSize": 4 if q else 5, "SampleSize": 6, "SampleN": 3000 if q else 30000}),
                         ("mac", {"MaxSize": 3, "SampleSize": 4 if q else 5, "SampleN": 6000 if q else 60000}),
                         ("lib", {"MaxSize": 3 if q else 4, "SampleSize": 4 if q else 5, "SampleN": 1500 if q else 20000})):
        consts = dict(consts, Mode='"%s"' % mode)
        gen_and_replay(ck, "GenC12", consts, timeout=1500)
        ck.extra.setdefault("bounds", {})[mode] = consts
    ck.exhaustive = True
    random_programs(ck, 2000 if ck.quick else 40000, 8, seed_offset=1212)
    machine_refines_def(ck, "c12", 2 if ck.quick else 3)
    machine_refines_def(ck, "c12qq", 3 if ck.quick else 4)
    evaluator_traces(ck, "c12", 2)


def dedupe_by_src(cases, merge_key=None):
    out = {}
    for c in cases:
        k = c.get("src")
        if k in out:
            if merge_key and c.get(merge_key):
                out[k][merge_key] = c[merge_key]
        else:
            out[k] = c
    return list(out.values())


@check("C02")
def c02(ck):
    ck.rule = ("every history of MaxLen collection-producing operations (27 sequence ops incl. conj concat subvec "
               "rest vec seq take/drop assoc with-meta quasiquote-splice apply map update, empty-prefix concat, rest-parameter "
               "closures under map/apply; length-3 histories over the 17 that share or append; 15 map ops) applied to "
               "values produced earlier in the history, explored by TLC on an implementation-shaped model of Go "
               "slices (heap of backing arrays, in-place append when len<cap); every history is replayed for every "
               "construction path of the seed (realising different spare capacities), via text and via AST, "
               "re-reading every earlier binding after every step; distinct = distinct histories")
    q = ck.quick
    total_danger = 0
    runs = (("seq", 2, "FALSE"), ("map", 2, "FALSE")) if q else (("seq", 2, "FALSE"), ("seq", 3, "TRUE"), ("map", 3, "FALSE"))
    for fam, ml, core in runs:
        consts = {"MaxLen": ml, "Family": '"%s"' % fam, "CoreOnly": core}
        r = ck.tlc("GenC02", cfg(constants=consts), timeout=1500)
        ck.tlc_ok(r, "GenC02")
        cases = dedupe_by_src(r.cases, "danger")
        total_danger += sum(1 for c in cases if c.get("danger"))
        if ml >= 3:
            # length-3 histories: every history, on a third of the seed construction paths each
            for i, c in enumerate(cases):
                c["seeds"] = c["seeds"][i % 3::3]
        ck.replay(cases)
        ck.extra.setdefault("bounds", {})["%s-%d" % (fam, ml)] = consts
    ck.extra["model_dangerous_histories"] = total_danger
    # values held by closures, atoms and rest-parameter lists (GenC02b), from forms and from text
    rb = ck.tlc("GenC02b", cfg(), timeout=600)
    ck.tlc_ok(rb, "GenC02b")
    held = []
    for c_ in rb.cases:
        held.append(dict(c_, id="held-ast:" + c_["src"][:60]))
        held.append(dict(c_, id="held-text:" + c_["src"][:60], opt={"route": "text"}))
    ck.replay(held)
    ck.exhaustive = True
    # direction B: long random histories with fan-out (every earlier name traced after every step)
    random_programs(ck, 300 if q else 6000, 8, seed_offset=202, mode="hist")


def text_cases(ck, alphabets, maxlen, timeout=1500):
    cases = []
    for a in alphabets:
        r = ck.tlc("GenText", cfg(constants={"AlphaName": '"%s"' % a, "MaxLen": maxlen}), timeout=timeout)
        ck.tlc_ok(r, "GenText")
        cases += r.cases
    seen = {}
    for c in cases:
        seen.setdefault(c["text"], c)
    out = list(seen.values())
    for c in out:
        c["id"] = "t:" + c["text"]
        c["src"] = c["text"]
    return out


@check("C05")
def c05(ck):
    ck.rule = ("every string of length <= MaxLen over 6 alphabets of 14 characters/fragments that exercise every scanner/reader "
               "branch (brackets, reader macros, string/raw-string quotes, escapes, U+029E, comments, placeholders, "
               "constructors, numbers, module-header and preamble lines), classified by Text.tla; each sent to READ (nil/loaded env, with/without "
               "module), READWithPreamble, Read_str (nil/empty/populated placeholder map), read-string, then PRINT; "
               "violation = panic or hang; distinct = distinct texts")
    alph = ["brackets", "strings", "macros", "escapes", "numbers", "preamble"]
    cases = text_cases(ck, alph, 4 if ck.quick else 5)
    cases += text_cases(ck, ["chain"], 4 if ck.quick else 8)
    cases += text_cases(ck, ["escseeds"], 3)
    cases += text_cases(ck, ["deep"], 3 if ck.quick else 6)
    cases += text_cases(ck, ["nul"], 3 if ck.quick else 4)
    ck.replay(cases, args=["-prop", "C05"])
    ck.exhaustive = True
    ck.extra["alphabets"] = alph
    # beyond the alphabets: arbitrary bytes (invalid UTF-8, NUL...).  A totality MONITOR: here the
    # specification only contributes "a value or an error, never a panic or a hang"
    n = 20000 if ck.quick else 400000
    out = ck.harness(["fuzzread", "-n", str(n), "-seed", str(ck.seed)], timeout=3000)
    for o in out[:-1]:
        ck.report("%s:%s:%s" % (o["kind"], o["site"], o["api"]), "%s %s on random bytes %r: %s" % (o["api"], o["kind"], o["text"], o["msg"]),
                  {"case": {"kind": "text", "text": o["text"], "cls": "unspec", "id": "fuzz"}, "args": ["-prop", "C05"]})
    ck.evaluations += n
    ck.extra["random_byte_strings"] = n


def repl_sessions(ck, prop):
    """Repl.tla (the interactive loop as a state machine over typed lines): TLC checks the machine's invariants on every
    session over the line alphabet and emits every session with the outputs the specification prescribes; each session is
    piped line by line into the real repl.Execute (child process).  -prop C16 judges segmentation, -prop C19 the values."""
    q = ck.quick
    # the state machine itself: invariants and action properties over all sessions
    c = ("SPECIFICATION Spec\nCONSTANT Alphabet <- %s\nCONSTANT MaxLines = %d\n"
         "INVARIANT BufferIsPending\nPROPERTY OneOutputPerStep\nPROPERTY QuietStepsKeepState\nCHECK_DEADLOCK FALSE\n"
         % ("AlphaQuick", 2 if q else 3))
    r = ck.tlc("Repl", c, timeout=1500, want_cases=False)
    ck.tlc_ok(r, "Repl state machine")
    c = ("SPECIFICATION GSpec\nCONSTANT Alphabet <- %s\nCONSTANT MaxLines = %d\nCONSTANT Sample = %d\nCHECK_DEADLOCK FALSE\n"
         % ("AlphaQuick" if q else "AlphaMore", 3, 4 if q else 0))
    r = ck.tlc("GenRepl", c, timeout=2400)
    ck.tlc_ok(r, "GenRepl")
    if not r.cases:
        raise InfraError("GenRepl produced no cases")
    ck.extra["repl_sessions"] = len(r.cases)
    ck.replay(r.cases, args=["-prop", prop], timeout=3000)


@check("C16")
def c16(ck):
    ck.rule = ("every TOKEN sequence of length <= MaxLen over two 14-token alphabets (all bracket kinds, reader "
               "macros, strings/raw strings containing brackets, comment) - which contains every well-formed "
               "expression of that size cut after every token and extended by every closer - plus every character "
               "string of length <= 4 over the bracket alphabets; Text.tla classifies each as complete / incomplete "
               "with the innermost closer / malformed; READ and the REPL's own multiLine classifier must agree")
    cases = text_cases(ck, ["tokens", "tokens2"], 4 if ck.quick else 5)
    cases += text_cases(ck, ["brackets", "macros"], 4)
    cases += text_cases(ck, ["deep"], 3 if ck.quick else 6)
    cases += text_cases(ck, ["nul"], 4 if ck.quick else 5)
    seen = {}
    for c in cases:
        seen.setdefault(c["text"], c)
    ck.replay(list(seen.values()), args=["-prop", "C16"])
    repl_sessions(ck, "C16")
    ck.exhaustive = True


@check("C06")
def c06(ck):
    ck.rule = ("value direction: every string of length <= MaxLen over a 12-character alphabet of everything the "
               "printer/reader treat specially, placed at top level / in a list / as map key / as map value / as set "
               "member, plus JSON-looking seeds, keywords/symbols/ints/nested collections; PRINT then READ and "
               "(read-string (pr-str v)) must give back v. Text direction: every accepted, float-free text of the "
               "C05/C16 enumerations: READ, PRINT, READ again equal, and equal to the value Text.tla reads. The model "
               "itself is checked for every case (Assert in the Next action)")
    consts = {"MaxLen": 3 if ck.quick else 4}
    gen_and_replay(ck, "GenC06", consts, timeout=1500)
    cases = text_cases(ck, ["escapes", "strings", "tokens", "numbers"] + ([] if ck.quick else ["brackets", "macros", "tokens2"]), 4)
    cases += text_cases(ck, ["escseeds"], 3)
    ck.replay(cases, args=["-prop", "C06"])
    ck.exhaustive = True
    # beyond the alphabet: random values with arbitrary Unicode strings, depth <= 6 (a round-trip MONITOR)
    n = 20000 if ck.quick else 400000
    out = ck.harness(["fuzzvalue", "-n", str(n), "-seed", str(ck.seed)], timeout=3000)
    for o in out[:-1]:
        ck.report(o["key"], "random value %s prints as %r which does not read back to it (%s)" % (o["value"], o["printed"], o["err"]),
                  {"case": {"kind": "value-text", "value": o["value"], "printed": o["printed"]}})
    ck.evaluations += n
    ck.extra["random_unicode_values"] = n


@check("C04")
def c04(ck):
    import os, json, random
    ck.rule = ("forms: every special-form head (19 heads incl. catch/finally/unquote used as heads) x every operand tuple "
               "of length 0..MaxAr over a pool of operand kinds (misplaced &, non-symbol parameters, clauses of every "
               "arity, operand-less unquote...); nested: 24 nesting templates x all operand triples; builtins: every "
               "function bound in the loaded environment x argument tuples over 14 value kinds; each AST evaluated "
               "bare and inside (try AST (catch e :caught)); a sample also as the body of a future in a child process; "
               "violation = Go panic / hang / process death / error escaping the try; Def.tla classifies each AST")
    q = ck.quick
    total = []
    for mode, consts in (("forms", {"MaxAr": 2 if q else 3, "PoolN": 0 if q else 24}),
                         ("nested", {"MaxAr": 3, "PoolN": 10 if q else 16})):
        consts = dict(consts, Mode='"%s"' % mode)
        r = gen_and_replay_keep(ck, "GenC04", consts, timeout=1500)
        total += [c for c, _ in r]
    # builtins found in the environment at run time
    names = ck.harness(["list-builtins"])
    bpath = os.path.join(ck.scratch, "builtins.ndjson")
    write_ndjson(bpath, names)
    consts = {"Mode": '"builtins"', "MaxAr": 2 if q else 3, "PoolN": 0}
    r = ck.tlc("GenC04", cfg(constants=consts), timeout=1500, env={"VERIF_BUILTINS": bpath})
    ck.tlc_ok(r, "GenC04 builtins")
    ck.replay(r.cases)
    ck.extra["builtins_in_environment"] = len(names)
    # futures: malformed bodies must not kill the process (child process per batch)
    rnd = random.Random(ck.seed)
    bad = [c for c in total if c["allow"]["k"] in ("unspec", "err")]
    rnd.shuffle(bad)
    sample = [dict(c, kind="astfuture", id="fut:" + c["id"]) for c in bad[:150 if q else 1500]]
    ck.replay_crashy(sample)
    ck.exhaustive = True


@check("C15")
def c15(ck):
    ck.rule = ("24 source templates (placeholder in code, quoted data, nested collections, twice, inside a string, inside "
               "a comment, adjacent names, unknown name, source starting with blank / comment / preamble-looking line) x "
               "assignments of 1 (and 2 in thorough) names out of 5 to a 30-value pool (strings with quotes, backslashes, "
               "semicolons, brackets, newlines, JSON-looking single- and multi-line text, preamble-looking lines, "
               "placeholder-named symbols and strings, nested collections); Text.ReadWith computes the substitution; an "
               "implementation-shaped model of the line-oriented preamble flags the cases the design loses; real "
               "READWithPreamble(AddPreamble(src,m)) and Read_str(src,m) must both equal the substitution")
    r = gen_and_replay_keep(ck, "GenC15", {"TwoNames": "FALSE"})
    if not ck.quick:
        r += gen_and_replay_keep(ck, "GenC15", {"TwoNames": "TRUE"}, timeout=2400)
    ck.extra["model_dangerous_cases"] = sum(1 for c, _ in r if c.get("danger"))
    ck.exhaustive = True


@check("C19")
def c19(ck):
    ck.rule = ("every C01-grammar program of <= MaxSize nodes and 17 multi-form programs (closures, macros, try/throw, "
               "quasiquote, atoms, eval, strings holding comment characters, errors in the middle) x 12 layouts rendered "
               "by the model (comment after every token, blank lines, CRLF, tabs, no final newline, trailing comment "
               "with/without newline, leading comment, ';; $MODULE' header) x 7 delivery routes on the real code (READ "
               "with module, READ nil cursor, position-less AST, READ of PRINT of READ, REPL form by form, one wrapping "
               "do, load-file); each compared with Def.tla's outcome: result, effect log, error-ness, globals")
    consts = {"MaxSize": 2 if ck.quick else 3}
    gen_and_replay(ck, "GenC19", consts, timeout=1500)
    repl_sessions(ck, "C19")
    ck.exhaustive = True
    ck.extra["bounds"] = consts


@check("C17")
def c17(ck):
    ck.rule = ("program texts rendered by the position model: 0..MaxPre (quick 1, thorough 2) blocks out of 7 kinds (comment, blank, 1-line form, "
               "multi-line form, multi-line raw string, trailing comment, quoted data) before the faulty block, 33 wrappers (direct, "
               "let, if, do, vector, map, call argument, cond, ->, and, or, try/finally, macro operand, rest-only macros, body of a function "
               "or closure defined in an earlier form and called directly / via map / apply / swap! / update / update-in, with any block between "
               "definition and call) x 18 faults x optional following form; model computes topBegin/topEnd/faultLine by "
               "line arithmetic; real error position (form by form, as one do, under a $MODULE header line, through load-file) must "
               "name the module, lie within the top-level form and cover the fault line; errors without a position are counted, not judged")
    consts = {"MaxPre": 1 if ck.quick else 2}
    gen_and_replay(ck, "GenC17", consts, timeout=1500)
    ck.exhaustive = True
    ck.extra["bounds"] = consts


@check("C20")
def c20(ck):
    ck.rule = ("every signature shape (ctx x 0..2 fixed parameters x variadic x 0..2 results x {int, MalType, mixed, "
               "error-interface} typing = 144 generated Go functions) x declared bound pairs x argument lists of length "
               "0..5 in 7 patterns over nil/1/\"s\"/(1) x behaviour (return, returned error, panic(error), panic(value)) x "
               "registration entry point (Call / CallOverrideFN) x import path with / without a dot; GenC20.tla's Contract "
               "decides invoke-or-error and the result convention; the real binder is called through lisp.EVAL and the "
               "generated functions record whether they were entered, with which arguments and context")
    consts = {"Full": "FALSE" if ck.quick else "TRUE"}
    gen_and_replay(ck, "GenC20", consts, timeout=1500)
    ck.exhaustive = True


@check("C08")
def c08(ck):
    ck.rule = ("every loop shape nesting up to MaxNest of 12 tail-position constructs (fn body with leading forms, do, let, "
               "both if branches, cond, and, or, immediately applied lambda, ->), spread over 1..3 mutually recursive "
               "functions, and every such shape with ONE of 11 non-tail constructs inserted at any level (controls that "
               "must grow); the definition layer's tail-call discipline predicts the sign of every depth difference "
               "between probe calls; real host stack depth (runtime.Callers) at each (depth! n) must agree; long runs "
               "(10^4..10^6 iterations) of the tail shapes must complete at constant depth")
    consts = {"MaxNest": 2 if ck.quick else 3, "Iter": 4}
    r = gen_and_replay_keep(ck, "GenC08", consts, timeout=1500)
    # long runs: same tail shapes with a large iteration count must stay constant and complete
    import copy, random
    rnd = random.Random(ck.seed)
    tails = [c for c, _ in r if c["tag"] == "tail"]
    rnd.shuffle(tails)
    big = []
    for c in tails[:60 if ck.quick else 400]:
        n = rnd.choice([1000, 20000] if ck.quick else [1000, 50000, 300000])
        b = copy.deepcopy(c)
        b["id"] = "long:%d:%s" % (n, c["id"])
        b["forms"][-1]["xs"][1]["i"] = n
        b["allow"]["depths"] = []
        b["opt"] = {"long_run_constant": "1"}
        big.append(b)
    ck.replay(big, timeout=3000)
    ck.exhaustive = True
    ck.extra["bounds"] = consts
    # the implementation-shaped evaluator (Eval.tla: Depth = Len(kont)+1 = live EVAL activations) bound to the code:
    # every real loop iteration (form, number of EVAL activations) must be the machine's
    evaluator_traces(ck, "c01", 2 if ck.quick else 3)
    evaluator_traces(ck, "c12", 2)


@check("C18")
def c18(ck):
    ck.rule = ("every program of <= MaxSize nodes of the C01 grammar (special forms, closures), the C03 grammar "
               "(try/catch/finally) and the C12 macro grammar x every cyclic stepper command script of length <= L over "
               "{no-op, next, in, out} (84 scripts for L=3, 340 for L=4) and without a stepper; result, error-ness, effect "
               "log and globals must equal Def.tla's outcome; every (form, visible bindings of x y e q) handed to the "
               "callback must be in the set of (form, scope) pairs Def.tla's evaluation of that program visits "
               "(quasiquote evaluated through the rewrite as coded); stepper protocol: for 22 scripts per program the "
               "recorded consultations (form, live EVAL activations, outing flags, answer) must be exactly the "
               "consultation log of the small-step machine Eval.tla run with the same script (TraceStep.tla), which also "
               "asserts on the model that the script does not change the outcome")
    q = ck.quick
    for which, size in (("c01", 2 if q else 3), ("c03", 2), ("c12", 2), ("cx", 2 if q else 3), ("cl", 2)):
        consts = {"Which": '"%s"' % which, "MaxSize": size}
        r = ck.tlc("GenC18", cfg(constants=consts), timeout=1500)
        ck.tlc_ok(r, "GenC18")
        args = ck.write_ctx(r.ctx) + ["-scriptlen", "3" if q else "4"]
        ck.replay(r.cases, args=args, procs=16, timeout=3000)
        ck.extra.setdefault("bounds", {})[which] = consts
    ck.exhaustive = True
    # the stepper PROTOCOL (consultation order, flags, deferred resets, recursion at the loop bottom) as modelled in
    # Eval.tla, validated against every real consultation
    for which, size in (("c01", 2 if q else 3), ("c03", 2), ("c12", 2)):
        stepper_traces(ck, which, size)


def parse_race_reports(paths):
    """-> list of (key, text) for data races whose BOTH accesses are in /repo code (github.com/jig/lisp)."""
    import re
    out = []
    for p in paths:
        try:
            txt = open(p, errors="replace").read()
        except Exception:
            continue
        for rep in txt.split("WARNING: DATA RACE")[1:]:
            rep = rep.split("==================")[0]
            blocks = re.split(r"\n\n", rep.strip())
            access = [b for b in blocks if re.match(r"\s*(Write|Read|Previous write|Previous read|Atomic|Previous atomic)", b)]
            sites = []
            for b in access[:2]:
                site = None
                for line in b.splitlines()[1:]:
                    line = line.strip()
                    m = re.match(r"([\w./\-\[\]*()]+)\(", line)
                    if not m:
                        continue
                    fn = m.group(1)
                    if fn.startswith(("runtime.", "sync.", "sync/", "reflect.", "internal/")):
                        continue
                    site = fn
                    break
                sites.append(site or "?")
            if len(sites) == 2 and all(s.startswith("github.com/jig/lisp") for s in sites):
                short = sorted(s.replace("github.com/jig/lisp/", "").replace("github.com/jig/lisp.", "") for s in sites)
                out.append(("race:" + "|".join(short), rep.strip()[:3000]))
    return out


def validate_trace(ck, module, trace_path, timeout=900):
    """Direction B: TLC validates a recorded trace; returns (rejections "<index> <reason>", tlc_result)."""
    import re, json
    t = ck.tlc(module, "SPECIFICATION Spec\nCHECK_DEADLOCK FALSE\n", workers=1, env={"VERIF_TRACE": trace_path},
               want_cases=False, timeout=timeout, heap="8g")
    if t.exit != 0:
        raise InfraError("%s failed on %s: exit %s\n%s" % (module, trace_path, t.exit, tail(t.stdout_path)))
    rej = []
    with open(t.stdout_path, errors="replace") as f:
        for line in f:
            if line.startswith('"REJECT '):
                rej.append(json.loads(line.strip())[7:])
    return rej, t


def corrupt_selftest(ck, module, trace_path, mutate):
    """Binding demonstration: a corrupted copy of a recorded trace must be REJECTED."""
    import json
    rows = [json.loads(l) for l in open(trace_path)]
    if not mutate(rows):
        return None
    bad = trace_path + ".corrupt"
    write_ndjson(bad, rows)
    rej, _ = validate_trace(ck, module, bad)
    if not rej:
        raise InfraError("%s accepted a corrupted trace: the trace specification does not bind" % module)
    return len(rej)


@check("C09")
def c09(ck):
    import os, glob, json, re
    ck.rule = ("model: AtomImpl.tla (RWMutex + cell + version, swap! as compare-and-set retry) checked exhaustively by TLC on "
               "5 scenarios x 3 threads x 2 atoms (no lost update, failed swap keeps the cell, deadlock freedom, termination "
               "under fairness); the same scenarios on the previous lock-held design are recorded as model counterexamples. "
               "real code: the model's dangerous scenarios (self-read, AB/BA cross swaps) plus random scenarios (2..T threads "
               "x 1..K operations of deref/reset!/swap! with pure, failing, atom-reading, self-reading, other-atom-swapping "
               "functions, pr-str) run with real goroutines; hooks record linearization-point events under the lock; "
               "TraceAtom.tla validates every recorded scenario; hangs judged structurally; a -race build runs the same")
    q = ck.quick
    # 0. the compare-and-set design, for any number of threads: TLAPS proof of AtomCas (AtomImpl refines it, below)
    ck.extra["tlaps_obligations_proved_AtomCasProof"] = ck.tlapm("AtomCasProof")
    # 1. design checking
    for sc in (1, 2, 3, 4, 5):
        props = ["CommitSeesCurrent", "FailedSwapKeepsCell", "RefinesCas1", "RefinesCas2"] + ([] if sc == 4 else ["Termination"])
        c = cfg(constants={"DesignC": '"cas"', "ScenarioId": sc}, invariants=["TypeOK"], props=props,
                extra="CONSTRAINT VerBound").replace("CHECK_DEADLOCK FALSE", "CHECK_DEADLOCK TRUE")
        r = ck.tlc("MCAtom", c, timeout=900, deadlock=True, want_cases=False)
        if r.exit != 0:
            raise InfraError("AtomImpl (cas design) scenario %d: TLC exit %s\n%s" % (sc, r.exit, tail(r.stdout_path)))
    old = {}
    for sc in (3, 4):
        c = cfg(constants={"DesignC": '"lockheld"', "ScenarioId": sc}, invariants=["TypeOK"]).replace(
            "CHECK_DEADLOCK FALSE", "CHECK_DEADLOCK TRUE")
        r = ck.tlc("MCAtom", c, timeout=300, deadlock=True, want_cases=False)
        old["scenario%d" % sc] = "deadlock" if r.deadlock else "exit %s" % r.exit
    ck.extra["previous_lockheld_design_on_model"] = old
    # 2. real code, recorded and validated
    n = 300 if q else 4000
    trace = os.path.join(ck.scratch, "atoms.ndjson")
    out = ck.harness(["atoms", "-n", str(n), "-seed", str(ck.seed), "-out", trace,
                      "-threads", "4" if q else "6", "-ops", "4" if q else "6"], timeout=3000)
    summary = out[-1]
    for h in out[:-1]:
        ck.report("deadlock:" + h["hang"], "scenario did not finish; goroutines parked: %s" % h["hang"],
                  {"case": {"kind": "atom-scenario", "scenario": h["scenario"]}})
    rej, t = validate_trace(ck, "TraceAtom", trace)
    ck.traces_validated += summary["scenarios"] - summary["hangs"]
    ck.evaluations += summary["scenarios"]
    rows = [json.loads(l) for l in open(trace)]
    ck.distinct |= {"scenario-%d" % i for i, r_ in enumerate(rows) if r_["ev"] == "begin"}
    ck.samples += [rows[1:12]]
    for line in rej[:50]:
        idx, _, reason = line.partition(" ")
        idx = int(idx)
        lo = max(0, idx - 25)
        ck.report("history:" + re.sub(r"[0-9]+", "N", reason).replace(" ", "-")[:60], reason,
                  {"case": {"kind": "atom-trace", "event_index": idx, "events": rows[lo:idx + 3]}})
    # binding self-test: corrupt one installed value / drop one event
    def mut(rows_):
        for r_ in rows_:
            if r_["ev"] == "set":
                r_["val"] += 7
                return True
        return False
    ck.extra["selftest_corrupted_trace_rejections"] = corrupt_selftest(ck, "TraceAtom", trace, mut)
    # 3. race detector on the same driver
    racelog = os.path.join(ck.scratch, "race")
    ck.harness(["atoms", "-n", str(60 if q else 600), "-seed", str(ck.seed + 1), "-out", os.path.join(ck.scratch, "atoms-race.ndjson")],
               race=True, timeout=3000, env={"GORACE": "log_path=%s halt_on_error=0 exitcode=0" % racelog})
    races = parse_race_reports(glob.glob(racelog + "*"))
    seen = set()
    for key, text in races:
        if key in seen:
            continue
        seen.add(key)
        ck.report(key, "data race between two accesses in jig/lisp code", {"case": {"kind": "race", "report": text}})
    ck.extra["race_reports_in_repo_code"] = len(races)


@check("C10")
def c10(ck):
    import os, glob, json
    ck.rule = ("model: FutureImpl.tla (body goroutine, 1-slot channels, done/cancelled flags, cancel's check-and-mark, deref's "
               "take-and-redeposit) checked exhaustively by TLC for the 5 body kinds (returns, throws, sleeps honouring "
               "cancellation, ignores cancellation, born under an ended context) with 2 derefers, a canceller and caller-context expiry: P1..P7; the "
               "pre-repair design's counterexamples (P4/P5 window) are recorded. real code: the model's counterexample "
               "schedule replayed deterministically through a gate at the delivery hook for each body kind, plus random "
               "schedules (2..6 threads of deref / done? / cancelled? / cancel, short caller deadlines); every recorded "
               "scenario validated by TraceFuture.tla; race detector run")
    # the repaired design for ANY number of deref threads: TLAPS proof over FutureImpl itself (Design = "fixed")
    ck.extra["tlaps_obligations_proved_FutureProof"] = ck.tlapm("FutureProof")
    q = ck.quick
    for bk in ("value", "error", "sleeps", "ignores", "borndead"):
        for wc in ("TRUE", "FALSE"):
            c = cfg(constants={"DesignC": '"fixed"', "BodyKindC": '"%s"' % bk, "WithCancelC": wc, "CallerCtxEndsC": "TRUE"},
                    invariants=["P1", "P2", "P4", "P5", "P6"], props=["P3", "P7"]).replace("CHECK_DEADLOCK FALSE", "CHECK_DEADLOCK TRUE")
            r = ck.tlc("MCFuture", c, timeout=600, deadlock=True, want_cases=False)
            if r.exit != 0:
                raise InfraError("FutureImpl (fixed design) %s/%s: TLC exit %s\n%s" % (bk, wc, r.exit, tail(r.stdout_path)))
    c = cfg(constants={"DesignC": '"orig"', "BodyKindC": '"value"', "WithCancelC": "TRUE", "CallerCtxEndsC": "FALSE"},
            invariants=["P1", "P2", "P4", "P5", "P6"])
    r = ck.tlc("MCFuture", c, timeout=300, want_cases=False)
    ck.extra["pre_repair_design_on_model"] = "violates %s" % r.violated if r.violated else "exit %s" % r.exit
    trace = os.path.join(ck.scratch, "futures.ndjson")
    out = ck.harness(["futures", "-n", str(150 if q else 3000), "-seed", str(ck.seed), "-out", trace], timeout=3000)
    summary = out[-1]
    for h in summary["hangs"]:
        ck.report("hang:future-scenario", h, {"case": {"kind": "future-scenario", "what": h}})
    rej, t = validate_trace(ck, "TraceFuture", trace)
    rows = [json.loads(l) for l in open(trace)]
    ck.traces_validated += summary["scenarios"] - len(summary["hangs"])
    ck.evaluations += summary["scenarios"]
    ck.distinct |= {"scenario-%d" % i for i, r_ in enumerate(rows) if r_["ev"] == "begin"}
    ck.samples += [rows[:14]]
    for line in rej[:50]:
        idx, _, reason = line.partition(" ")
        idx = int(idx)
        ck.report("history:" + reason.split(":")[0], reason,
                  {"case": {"kind": "future-trace", "event_index": idx, "events": rows[max(0, idx - 30):idx + 2]}})
    def mut(rows_):
        seen_deref = False
        for r_ in rows_:
            if r_["ev"] == "res" and r_["op"] == "deref" and r_["out"] != "ctx":
                seen_deref = True
            if seen_deref and r_["ev"] == "res" and r_["op"] == "done?" and r_["val"] == 1:
                r_["val"] = 0
                return True
        return False
    ck.extra["selftest_corrupted_trace_rejections"] = corrupt_selftest(ck, "TraceFuture", trace, mut)
    racelog = os.path.join(ck.scratch, "race")
    ck.harness(["futures", "-n", str(60 if q else 500), "-seed", str(ck.seed + 1), "-out", os.path.join(ck.scratch, "f-race.ndjson")],
               race=True, timeout=3000, env={"GORACE": "log_path=%s halt_on_error=0 exitcode=0" % racelog})
    races = parse_race_reports(glob.glob(racelog + "*"))
    seen = set()
    for key, text in races:
        if key not in seen:
            seen.add(key)
            ck.report(key, "data race between two accesses in jig/lisp code", {"case": {"kind": "race", "report": text}})
    ck.extra["race_reports_in_repo_code"] = len(races)


@check("C11")
def c11(ck):
    import os, glob, json
    ck.rule = ("model: EnvLock.tla (scope tree, one RWMutex per scope, lookups climbing with nested read locks, single-lock "
               "writers) checked by TLC for deadlock freedom and reads-see-latest-set (the shared-mutex variant deadlocks). "
               "real code: every set of 2 (quick) / 3 (thorough) programs out of a 16-template pool (local scopes, closures, "
               "macros incl. cond -> ->> and or, gensym, memoize, atoms, try/catch/finally, tail loops, own global names) "
               "run simultaneously on ONE environment preloaded with the libraries, R times; each program must give exactly "
               "its solo outcome as computed by Def.tla (generated symbols up to renaming); the per-scope operation log "
               "recorded by the hook is validated by TraceEnv.tla (a scope created by one evaluation is never touched by "
               "another); the same under the race detector")
    q = ck.quick
    for sh, expect_deadlock in (("FALSE", False), ("TRUE", True)):
        big = (not q) and not expect_deadlock     # thorough: three readers and three writers (1.6 M states)
        c = "SPECIFICATION Spec\nCONSTANT Sharing = %s\nCONSTANT Readers = {%s}\nCONSTANT Writers = {%s}\n" \
            "INVARIANT ReadsSeeLatestSet\nINVARIANT NoTornRead\nCHECK_DEADLOCK TRUE\n" % (
                sh, "11, 12, 13" if big else "11, 12", "1, 2, 3" if big else "1, 2")
        r = ck.tlc("EnvLock", c, timeout=600, deadlock=True, want_cases=False)
        if not expect_deadlock and r.exit != 0:
            raise InfraError("EnvLock: TLC exit %s\n%s" % (r.exit, tail(r.stdout_path)))
        if expect_deadlock:
            ck.extra["shared_mutex_variant_on_model"] = "deadlock" if r.deadlock else "exit %s" % r.exit
    r = ck.tlc("GenC11", cfg(constants={"SetSize": 2 if q else 3}), timeout=1500)
    ck.tlc_ok(r, "GenC11")
    trace = os.path.join(ck.scratch, "env.ndjson")
    ck.replay(r.cases, args=["-repeat", "2" if q else "4"], timeout=3000)
    # scope-isolation log on a sample (the log is large), validated by TraceEnv.tla
    sample = r.cases[:: max(1, len(r.cases) // (40 if q else 300))]
    ck.harness(["replay", "-workers", "1", "-repeat", "1", "-envtrace", trace], sample, timeout=3000)
    rej, t = validate_trace(ck, "TraceEnv", trace, timeout=1800)
    rows = [json.loads(l) for l in open(trace)]
    ck.traces_validated += sum(1 for r_ in rows if r_["ev"] == "begin")
    for line in rej[:20]:
        idx, _, reason = line.partition(" ")
        ck.report("isolation:foreign-scope-touched", reason, {"case": {"kind": "env-trace", "events": rows[max(0, int(idx) - 20):int(idx) + 1]}})
    def mut(rows_):
        for i, r_ in enumerate(rows_):
            if r_["ev"] == "op" and r_["pre"] == 0 and i > 50:
                r_["g"] = r_["g"] % 3 + 1
                return True
        return False
    ck.extra["selftest_corrupted_trace_rejections"] = corrupt_selftest(ck, "TraceEnv", trace, mut)
    # "seen either entirely or not at all": writers redefine globals while readers look them up (nested scopes,
    # closures, macro expansions, futures); TraceRW.tla validates the log as a linearizable single-writer register
    rw = os.path.join(ck.scratch, "globals.ndjson")
    gout = ck.harness(["globals", "-n", str(80 if q else 1500), "-seed", str(ck.seed), "-out", rw], timeout=1200)
    for h in gout[:-1]:
        if "hang" in h:
            ck.report("hang:global-definitions", h["hang"], {"case": {"kind": "globals-scenario", "seed": ck.seed, "scenario": h["scenario"]}})
    rej, t = validate_trace(ck, "TraceRW", rw, timeout=1800)
    rwrows = [json.loads(l) for l in open(rw)]
    ck.traces_validated += sum(1 for r_ in rwrows if r_["ev"] == "begin")
    ck.extra["global_reads_validated"] = sum(1 for r_ in rwrows if r_["ev"] == "re")
    for line in rej[:20]:
        idx, _, reason = line.partition(" ")
        i = int(idx)
        j = max(k for k in range(i) if rwrows[k]["ev"] == "begin")
        via = rwrows[i - 1].get("via", "")
        ck.report("definition-visibility:%s" % via, reason, {"case": {"kind": "globals-trace", "events": rwrows[j:i]}})
    def mutrw(rows_):
        n = 0
        for r_ in rows_:
            if r_["ev"] == "re":
                n += 1
                if n == 5:
                    r_["val"] = 99      # a definition that was never made
                    return True
        return False
    ck.extra["selftest_corrupted_globals_trace_rejections"] = corrupt_selftest(ck, "TraceRW", rw, mutrw)
    # race detector
    racelog = os.path.join(ck.scratch, "race")
    # all sets made only of the programs that derive values from shared globals, and every 3rd of the others
    derive = [c_ for c_ in r.cases if all(" sv" in t_ or " sl" in t_ or " sm" in t_ or " sr" in t_ or "shf" in t_ or "sfut" in t_ for t_ in c_["texts"])]
    rest_ = [c_ for c_ in r.cases if c_ not in derive]
    ck.harness(["replay", "-repeat", "2"], derive + rest_[:: (3 if q else 1)], race=True, timeout=3000,
               env={"GORACE": "log_path=%s halt_on_error=0 exitcode=0" % racelog})
    if not any("hang" in h for h in gout[:-1]):
        ck.harness(["globals", "-n", str(40 if q else 400), "-seed", str(ck.seed + 7), "-out", os.path.join(ck.scratch, "globals-race.ndjson")],
                   race=True, timeout=3000, env={"GORACE": "log_path=%s halt_on_error=0 exitcode=0" % racelog})
    races = parse_race_reports(glob.glob(racelog + "*"))
    seen = set()
    for key, text in races:
        if key not in seen:
            seen.add(key)
            ck.report(key, "data race between two accesses in jig/lisp code", {"case": {"kind": "race", "report": text}})
    ck.extra["race_reports_in_repo_code"] = len(races)
    ck.exhaustive = True


@check("C07")
def c07(ck):
    import re
    ck.rule = ("model: Cancel.tla (loop-top poll, context-aware blocking builtins, try body under a child budget, handler and "
               "finally under the parent context) checked by TLC over 86 program shapes (endless tail loop, non-tail "
               "recursion, macro expansion, long sleep, deref of a sleeping future; bare and as body / handler / finally of "
               "try forms nested up to depth 2) with Cancel (or budget / deadline expiry) explored at EVERY step: bounded "
               "iterations after the context ends, ended ~> done. real code: every shape x 12 cancellation instants, the real "
               "context cancelled by the loop-top hook at the k-th iteration (or while parked in a blocking builtin): must "
               "return, within the model's iteration bound; every shape under a real 1.2 s deadline: back by deadline+slack "
               "(three attempts), handler value returned when the model says the handler runs")
    cases = []
    for mode in ("cancel", "deadline"):
        c = cfg(constants={"ModeC": '"%s"' % mode}, invariants=["PromptAfterCancel"], props=["EndedLeadsToDone"])
        r = ck.tlc("GenC07", c, timeout=900)
        ck.tlc_ok(r, "GenC07 " + mode)
        cases += r.cases
    for c in cases:
        c["id"] = "%s:%d" % (c["mode"], c["shape"])
        if c["mode"] == "deadline":
            src = c["src"]
            # the outermost try has a plain-value handler, an endless body and no endless finally: the handler's value
            m = re.match(r"^\(try (\(lp 0\)|\(rcl\)|\(spin\)|\(sleep 100000\)|@\(future \(sleep 100000\)\)|\(eval '\(lp 0\)\)|\(eval \(list 'sleep 100000\)\)|\(let \[fc \(future \(busy! 30000\)\)\] \(future-cancel fc\) @fc\)|\(swap! spa \(fn \[v\] \(reset! spa \(\+ v 1\)\) v\)\)|@oldfut) \(catch e \(trace! :hh\) :h\)( \(finally \(trace! :ff\) :h\))?\)$", src)
            if m:
                c["opt"] = {"expect": "value", "effects": ":hh" + (" :ff" if m.group(2) else "")}
            elif "try" not in src:
                c["opt"] = {"expect": "timeout"}
    # a future started OUTSIDE the try (under the caller's context) and awaited inside its body (under the body's budget)
    outer = "(let [fo (future (sleep 100000))] (try @fo (catch e (trace! :hh) :h)))"
    cases.append({"kind": "cancel", "tag": "try", "shape": 900, "mode": "deadline", "src": outer, "bound": 4,
                  "id": "deadline:900", "opt": {"expect": "value", "effects": ":hh"}})
    cases.append({"kind": "cancel", "tag": "try", "shape": 900, "mode": "cancel", "src": outer, "bound": 4, "id": "cancel:900"})
    canc = [c for c in cases if c["mode"] == "cancel"]
    dl = [c for c in cases if c["mode"] == "deadline"]
    if ck.quick:
        dl = dl[::3] + [c for c in dl if c.get("opt", {}).get("expect") == "value"][:4] + [c for c in dl if "try" not in c["src"]]
        dl = list({c["id"]: c for c in dl}.values())
    ck.replay(canc, args=["-workers", "1"], timeout=3000)
    ck.replay(dl, args=["-workers", "48"], timeout=3000, double_check=False)
    ck.exhaustive = True


def random_programs(ck, n, depth, seed_offset=0, mode="prog"):
    """Direction B for program properties: random typed programs run on the real code, the recorded
    (program, outcome, effect log) validated by TraceDef.tla (Def explains every record)."""
    import os, json
    trace = os.path.join(ck.scratch, "progs.ndjson")
    ck.harness(["progs", "-mode", mode, "-n", str(n), "-depth", str(depth), "-seed", str(ck.seed + seed_offset), "-out", trace], timeout=3000)
    t = ck.tlc("TraceDef", "SPECIFICATION Spec\nCHECK_DEADLOCK FALSE\n", env={"VERIF_TRACE": trace}, want_cases=False,
               timeout=3000, heap="12g")
    if t.exit != 0:
        raise InfraError("TraceDef failed: exit %s\n%s" % (t.exit, tail(t.stdout_path)))
    rej, abst = [], 0
    with open(t.stdout_path, errors="replace") as f:
        for line in f:
            if line.startswith('"REJECT '):
                rej.append(json.loads(line.strip())[7:])
            elif line.startswith('"ABSTAIN '):
                abst += 1
    rows = None
    ck.traces_validated += n - abst
    ck.abstained += abst
    ck.extra["random_" + mode] = {"n": n, "depth": depth, "abstained": abst, "rejected": len(rej)}
    if rej:
        rows = [json.loads(l) for l in open(trace)]
    for line in rej[:30]:
        idx, _, why = line.partition(" ")
        rec = rows[int(idx) - 1]
        from vrun import show
        ck.report("trace:" + why.split(":")[0], "random program: definition and real code disagree on %s" % why,
                  {"case": {"kind": "prog", "forms": rec["forms"], "src": " ".join(show(f) for f in rec["forms"][6:]),
                            "allow": {"k": "see-TraceDef"}}, "observed": rec["obs"]})
    # binding self-test
    def mut(rows_):
        hit = False
        for r_ in rows_:      # every record loses its last effect; the oracle abstains on some of them
            if r_["obs"]["eff"]:
                r_["obs"]["eff"] = r_["obs"]["eff"][:-1]
                hit = True
        return hit
    import json as _j
    rws = [r_ for r_ in (_j.loads(l) for l in open(trace)) if r_["obs"]["eff"]][:400]
    if mut(rws):
        bad = trace + ".corrupt"
        write_ndjson(bad, rws)
        t2 = ck.tlc("TraceDef", "SPECIFICATION Spec\nCHECK_DEADLOCK FALSE\n", env={"VERIF_TRACE": bad}, want_cases=False, timeout=900)
        txt = open(t2.stdout_path, errors="replace").read()
        if '"REJECT ' not in txt:
            raise InfraError("TraceDef accepted a corrupted record: the trace specification does not bind")


def oracle_stepfiles(ck):
    """The definition layer checked against the project's own documentation (tests/step*.mal).
    A disagreement is a defect of the SPECIFICATION: INFRA-ERROR, never a verdict about the code."""
    import os, json, sys
    sys.path.insert(0, os.path.join(os.path.dirname(os.path.abspath(__file__))))
    import stepfiles
    from vrun import REPO
    ps = stepfiles.pairs(REPO)
    path = os.path.join(ck.scratch, "steps.ndjson")
    write_ndjson(path, ps)
    t = ck.tlc("StepFiles", "SPECIFICATION Spec\nCHECK_DEADLOCK FALSE\n", workers=1, env={"VERIF_TRACE": path},
               want_cases=False, timeout=1200)
    if t.exit != 0:
        raise InfraError("StepFiles failed: exit %s\n%s" % (t.exit, tail(t.stdout_path)))
    ok = skip = 0
    dis = []
    for line in open(t.stdout_path, errors="replace"):
        if line.startswith('"OK '):
            ok += 1
        elif line.startswith('"SKIP '):
            skip += 1
        elif line.startswith('"DISAGREE '):
            s = json.loads(line)
            i = int(s.split()[1])
            dis.append("%s: %s => %s" % (ps[i - 1]["file"], ps[i - 1]["input"], s))
    ck.extra["oracle_vs_step_files"] = {"pairs": len(ps), "agree": ok, "outside_fragment": skip, "disagree": len(dis)}
    if dis:
        raise InfraError("the definition layer disagrees with the step files (fix the specification):\n" + "\n".join(dis[:20]))


def evaluator_traces(ck, which, size):
    """Trace validation of the evaluator: real loop-top events vs the small-step machine Eval.tla."""
    import os, json
    r = ck.tlc("GenC18", cfg(constants={"Which": '"%s"' % which, "MaxSize": size}), timeout=1500)
    ck.tlc_ok(r, "GenC18")
    cases = [dict(c, kind="looptops", id="lt:" + c["id"]) for c in r.cases if c["allow"]["k"] not in ("div", "unspec")]
    vs = ck.harness(["replay", "-workers", "1"] + ck.write_ctx(r.ctx), cases, timeout=3000)
    byid = {c["id"]: c for c in cases}
    rows = []
    for v in vs:
        if v.get("verdict") != "ok":
            ck.report(v.get("key") or v["verdict"], v.get("note") or "", {"case": byid[v["id"]], "verdict": v})
            continue
        c = byid[v["id"]]
        rows.append({"sz": c["sz"], "idx": c["idx"], "tops": v["obs"]["tops"]})
    trace = os.path.join(ck.scratch, "tops-%s.ndjson" % which)
    write_ndjson(trace, rows)
    t = ck.tlc("TraceEval", cfg(constants={"Which": '"%s"' % which}), env={"VERIF_TRACE": trace}, want_cases=False,
               timeout=3000, heap="12g")
    if t.exit != 0:
        raise InfraError("TraceEval failed: exit %s\n%s" % (t.exit, tail(t.stdout_path)))
    rej, abst = [], 0
    for line in open(t.stdout_path, errors="replace"):
        if line.startswith('"REJECT '):
            rej.append(json.loads(line.strip())[7:])
        elif line.startswith('"ABSTAIN '):
            abst += 1
    ck.traces_validated += len(rows) - abst
    ck.extra.setdefault("evaluator_traces", {})[which] = {"programs": len(rows), "loop_iterations": sum(len(r_["tops"]) for r_ in rows),
                                                          "abstained": abst, "rejected": len(rej)}
    for line in rej[:20]:
        idx, _, why = line.partition(" ")
        ck.report("looptops:differs-from-machine", "the real evaluation loop does not follow the small-step machine: " + why[:400],
                  {"case": {"kind": "looptops-trace", "record": rows[int(idx) - 1]["sz"], "why": why}})
    # binding self-test: drop one recorded iteration
    bad = [dict(r_) for r_ in rows if len(r_["tops"]) > 2][:50]
    if bad:
        for b in bad:
            b["tops"] = b["tops"][:1] + b["tops"][2:]
        path = trace + ".corrupt"
        write_ndjson(path, bad)
        t2 = ck.tlc("TraceEval", cfg(constants={"Which": '"%s"' % which}), env={"VERIF_TRACE": path}, want_cases=False, timeout=900)
        if '"REJECT ' not in open(t2.stdout_path, errors="replace").read():
            raise InfraError("TraceEval accepted a trace with a missing loop iteration: it does not bind")


def machine_refines_def(ck, which, size):
    """Model-level theorem checked by TLC: the small-step machine Eval.tla ends like the definition Def.tla
    (same outcome, same effect log) for EVERY program of the grammar up to the size bound, and never gets stuck."""
    r = ck.tlc("MCEval", cfg(constants={"Which": '"%s"' % which, "MaxSize": size}), timeout=1800, want_cases=False)
    if r.exit != 0:
        raise InfraError("Eval.tla does not refine Def.tla (%s, size %d): exit %s\n%s" % (which, size, r.exit, tail(r.stdout_path)))
    ck.extra.setdefault("machine_refines_definition", {})[which] = {"max_size": size, "programs": r.distinct // 2}


def stepper_traces(ck, which, size):
    """Trace validation of the stepper protocol: real consultations vs the machine of Eval.tla with the same script."""
    import os, json
    r = ck.tlc("GenC18", cfg(constants={"Which": '"%s"' % which, "MaxSize": size}), timeout=1500)
    ck.tlc_ok(r, "GenC18")
    cases = [dict(c, kind="steplog", id="sl:" + c["id"]) for c in r.cases if c["allow"]["k"] not in ("div", "unspec")]
    vs = ck.harness_procs(["replay"] + ck.write_ctx(r.ctx), cases, 16, timeout=3000)
    byid = {c["id"]: c for c in cases}
    rows = []
    for v in vs:
        if v.get("verdict") != "ok":
            ck.report(v.get("key") or v["verdict"], v.get("note") or "", {"case": byid[v["id"]], "verdict": v})
            continue
        c = byid[v["id"]]
        for rec in v["obs"]:
            rows.append({"sz": c["sz"], "idx": c["idx"], "script": rec["script"], "log": rec["log"] or []})
    trace = os.path.join(ck.scratch, "steps-%s.ndjson" % which)
    write_ndjson(trace, rows)
    t = ck.tlc("TraceStep", cfg(constants={"Which": '"%s"' % which}), env={"VERIF_TRACE": trace}, want_cases=False,
               timeout=3000, heap="12g")
    if t.exit != 0:
        raise InfraError("TraceStep failed: exit %s\n%s" % (t.exit, tail(t.stdout_path)))
    rej, abst = [], 0
    for line in open(t.stdout_path, errors="replace"):
        if line.startswith('"REJECT '):
            rej.append(json.loads(line.strip())[7:])
        elif line.startswith('"ABSTAIN '):
            abst += 1
    ck.traces_validated += len(rows) - abst
    ck.extra.setdefault("stepper_traces", {})[which] = {"runs": len(rows), "consultations": sum(len(r_["log"]) for r_ in rows),
                                                        "abstained": abst, "rejected": len(rej)}
    for line in rej[:20]:
        idx, _, why = line.partition(" ")
        ck.report("stepper:consultations-differ-from-machine", "the stepper is not consulted as the machine of Eval.tla says: " + why[:500],
                  {"case": {"kind": "steplog-trace", "record": int(idx), "why": why}})
    # self-test of the binding: recordings with their first consultation removed must be rejected (rows arrive in
    # the order the 16 harness processes finish, so pick rows that HAVE more than one consultation)
    bad = [dict(r_) for r_ in rows if len(r_["log"]) > 1][:80]
    if bad:
        for b in bad:
            b["log"] = b["log"][1:]
        path = trace + ".corrupt"
        write_ndjson(path, bad)
        t2 = ck.tlc("TraceStep", cfg(constants={"Which": '"%s"' % which}), env={"VERIF_TRACE": path}, want_cases=False, timeout=900)
        if '"REJECT ' not in open(t2.stdout_path, errors="replace").read():
            raise InfraError("TraceStep accepted a trace with a missing consultation: it does not bind")
