"""Per-property check drivers.  Each function receives a vrun.Check."""
from vrun import InfraError, log  # noqa: F401

CHECKS = {}


def check(pid):
    def deco(f):
        CHECKS[pid] = f
        return f
    return deco


def cfg(spec="Spec", constants=None, invariants=(), props=(), extra=""):
    out = ["SPECIFICATION %s" % spec]
    for k, v in (constants or {}).items():
        out.append("CONSTANT %s = %s" % (k, v))
    for i in invariants:
        out.append("INVARIANT %s" % i)
    for p in props:
        out.append("PROPERTY %s" % p)
    out.append("CHECK_DEADLOCK FALSE")
    if extra:
        out.append(extra)
    return "\n".join(out) + "\n"


def gen_and_replay(ck, module, constants, timeout=900, replay_args=None, workers=None):
    """Direction A: TLC enumerates cases with their allowed outcomes; replay on the real code."""
    r = ck.tlc(module, cfg(constants=constants), timeout=timeout, workers=workers)
    ck.tlc_ok(r, module)
    if not r.cases:
        raise InfraError("%s produced no cases" % module)
    args = list(replay_args or [])
    if r.ctx:
        args += ck.write_ctx(r.ctx)
    ck.replay(r.cases, args=args)
    return r


@check("C01")
def c01(ck):
    ck.rule = ("every program of <= MaxSize nodes over the GenC01 grammar (10 leaves, 6 unary, 10 binary, "
               "5 ternary forms of def/let/if/do/fn/&/quote/calls) plus a random sample of larger ones, each "
               "evaluated by Def.tla (definition layer) and replayed through lisp.EVAL in a fresh environment; "
               "compared: outcome kind, value, effect log, final globals x y. distinct = distinct program "
               "texts whose allowed outcome is not 'unspec'/'div'")
    if ck.quick:
        consts = {"MaxSize": 4, "SampleSize": 6, "SampleN": 3000}
    else:
        consts = {"MaxSize": 5, "SampleSize": 7, "SampleN": 60000}
    r = gen_and_replay(ck, "GenC01", consts, timeout=1500)
    ck.exhaustive = True
    ck.extra["bounds"] = consts
