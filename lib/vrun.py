"""Shared runner for the jig/lisp model-based checks.

One check = one invocation of bin/check <ID>.  The runner
  * builds the Go harness against /repo's working tree (tag verif),
  * copies /verif/spec into a scratch directory and runs TLC there,
  * pipes TLC-generated cases into the harness (direction A) and
    harness-recorded traces into TLC (direction B),
  * matches discrepancies against known_findings.json,
  * writes /verif/evidence/<ID>.json and replay files,
  * exit 0 = held on everything explored, 1 = VIOLATION line printed,
    2 = INFRA-ERROR (never a verdict about the code).
"""
import hashlib
import json
import os
import re
import shutil
import subprocess
import sys
import tempfile
import time

VERIF = os.path.dirname(os.path.dirname(os.path.abspath(__file__)))
REPO = os.environ.get("VERIF_REPO", "/repo")
JAR = "/opt/veriftools/tla/tla2tools.jar:/opt/veriftools/tla/CommunityModules-deps.jar"
NCPU = os.cpu_count() or 4


class InfraError(Exception):
    pass


class HarnessDied(InfraError):
    """The harness process was killed (fatal runtime error, out of memory) while running cases."""
    stdout = stderr = ""
    returncode = 0


def limit_memory():
    """Child processes running the code under test may not take the machine down: a runaway evaluation dies with
    'fatal error: runtime: out of memory' instead (address-space limit; not used for -race builds, which reserve
    terabytes of address space)."""
    import resource
    gb = int(os.environ.get("VERIF_HARNESS_AS_GB", "16"))
    resource.setrlimit(resource.RLIMIT_AS, (gb << 30, gb << 30))



def log(*a):
    print(*a, file=sys.stderr, flush=True)


class TLCResult:
    def __init__(self):
        self.exit = None
        self.stdout_path = None
        self.generated = 0
        self.distinct = 0
        self.cases = []
        self.errors = []
        self.violated = None
        self.wall = 0.0
        self.postcondition_false = False
        self.deadlock = False
        self.trace_text = ""
        self.ctx = {}


class Check:
    def __init__(self, prop, tier=None, seed=None):
        self.prop = prop
        self.tier = tier or os.environ.get("VERIF_TIER", "quick")
        if self.tier not in ("quick", "thorough"):
            self.tier = "quick"
        self.seed = int(seed if seed is not None else os.environ.get("VERIF_SEED", "1") or 1)
        self.t0 = time.time()
        base = os.environ.get("TMPDIR", "/tmp")
        self.scratch = tempfile.mkdtemp(prefix="verif-%s-" % prop, dir=base)
        self.specdir = os.path.join(self.scratch, "spec")
        shutil.copytree(os.path.join(VERIF, "spec"), self.specdir)
        self.harness_bin = {}
        self.states = 0
        self.transitions = 0
        self.traces_validated = 0
        self.evaluations = 0
        self.distinct = set()
        self.samples = []
        self.violations = []      # (key, what, replay_path)
        self.known_hits = {}      # key -> what
        self.extra = {}
        self.assumptions = []
        self.classes = {}
        self.abstained = 0
        self.exhaustive = None
        self.rule = ""
        self.known = load_known(prop)
        self.tlc_runs = []
        self.per_key = {}
        self.first_path = {}

    @property
    def quick(self):
        return self.tier == "quick"

    # ------------------------------------------------------------------ build
    def build_harness(self, race=False, tags="verif"):
        key = (race, tags)
        if key in self.harness_bin:
            return self.harness_bin[key]
        # build from a scratch copy of the harness sources whose go.mod points at the
        # repository under test (normally /repo; VERIF_REPO for scratch worktrees)
        hdir = os.path.join(self.scratch, "hsrc")
        if not os.path.isdir(hdir):
            shutil.copytree(os.path.join(VERIF, "harness"), hdir,
                            ignore=shutil.ignore_patterns("harness", "harness-race", "go.sum"))
            with open(os.path.join(hdir, "go.mod")) as f:
                gm = f.read()
            with open(os.path.join(hdir, "go.mod"), "w") as f:
                f.write(gm.replace("=> /repo", "=> " + REPO))
            shutil.copy(os.path.join(REPO, "go.sum"), os.path.join(hdir, "go.sum"))
        out = os.path.join(self.scratch, "harness-race" if race else "harness")
        env = goenv()
        cmd = ["go", "build", "-tags", tags]
        if race:
            cmd.append("-race")
        cmd += ["-o", out, "."]
        t = time.time()
        p = subprocess.run(cmd, cwd=hdir, env=env, capture_output=True, text=True)
        if p.returncode != 0:
            raise InfraError("harness build failed:\n" + p.stdout + p.stderr)
        log("[build] harness%s in %.1fs" % (" (race)" if race else "", time.time() - t))
        self.harness_bin[key] = out
        return out

    # -------------------------------------------------------------------- TLC
    def tlc(self, module, cfg, workers=None, timeout=900, simulate=None, depth=None,
            heap="6g", deadlock=False, extra=None, env=None, dfs=False, want_cases=True):
        """Run TLC on spec/<module>.tla with the given cfg text."""
        cfgpath = os.path.join(self.specdir, module + "_run.cfg")
        with open(cfgpath, "w") as f:
            f.write(cfg)
        outpath = os.path.join(self.scratch, "tlc-%s-%d.out" % (module, len(self.tlc_runs)))
        meta = os.path.join(self.scratch, "md-%d" % len(self.tlc_runs))
        jopts = "-Dfile.encoding=UTF-8 -Dstdout.encoding=UTF-8"
        cmd = ["java", "-XX:+UseParallelGC", "-Xmx" + heap, "-Xss512m",
               "-Djava.io.tmpdir=" + self.scratch]
        if dfs:
            cmd.append("-Dtlc2.tool.queue.IStateQueue=StateDeque")
        cmd += ["-cp", JAR, "tlc2.TLC", "-metadir", meta, "-config", cfgpath,
                "-workers", str(workers or NCPU)]
        if not deadlock:
            cmd += ["-deadlock"]
        if simulate:
            cmd += ["-simulate", simulate]
            if depth:
                cmd += ["-depth", str(depth)]
        cmd += ["-seed", str(self.seed)]
        if extra:
            cmd += extra
        cmd.append(os.path.join(self.specdir, module + ".tla"))
        e = dict(os.environ)
        e["LC_ALL"] = "C.UTF-8"
        e["JAVA_TOOL_OPTIONS"] = jopts
        if env:
            e.update(env)
        t = time.time()
        for attempt in (1, 2):
            with open(outpath, "w") as out:
                try:
                    p = subprocess.run(cmd, cwd=self.specdir, env=e, stdout=out,
                                       stderr=subprocess.STDOUT, timeout=timeout)
                    code = p.returncode
                except subprocess.TimeoutExpired:
                    code = -9
            # a (rare) TLC-internal concurrency hazard on values shared between workers: run again
            if code not in (0, -9) and attempt == 1 and "occurs multiple times in record" in tail_file(outpath, 60):
                log("[tlc] internal exception (record normalisation race), retrying " + module)
                shutil.rmtree(meta, ignore_errors=True)
                continue
            break
        r = TLCResult()
        r.exit = code
        r.stdout_path = outpath
        r.wall = time.time() - t
        self._parse_tlc(r, want_cases)
        self.tlc_runs.append({"module": module, "exit": code, "wall_s": round(r.wall, 1),
                              "generated": r.generated, "distinct": r.distinct})
        self.states += r.distinct
        self.transitions += r.generated
        log("[tlc] %s exit=%s %d generated %d distinct %d cases %.1fs" %
            (module, code, r.generated, r.distinct, len(r.cases), r.wall))
        if code == -9:
            raise InfraError("TLC timeout on %s after %ds" % (module, timeout))
        return r

    def _parse_tlc(self, r, want_cases):
        gen = re.compile(r"^(\d+) states generated, (\d+) distinct states found")
        sim = re.compile(r"^The number of states generated: (\d+)")
        with open(r.stdout_path, encoding="utf-8", errors="replace") as f:
            for line in f:
                if line.startswith('"CASE '):
                    if want_cases:
                        try:
                            s = json.loads(line)
                            c = json.loads(s[5:])
                        except Exception as ex:  # noqa
                            raise InfraError("unparsable CASE line: %r (%s)" % (line[:200], ex))
                        if "id" not in c:
                            c["id"] = hashlib.sha1(s.encode()).hexdigest()[:14]
                        r.cases.append(c)
                    continue
                if line.startswith('"CTX '):
                    c = json.loads(json.loads(line)[4:])
                    r.ctx[c["name"]] = c["forms"]
                    continue
                m = gen.match(line)
                if m:
                    r.generated = int(m.group(1))
                    r.distinct = int(m.group(2))
                    continue
                m = sim.match(line)
                if m:
                    r.generated = int(m.group(1))
                    r.distinct = max(r.distinct, int(m.group(1)))
                    continue
                if line.startswith("Error:"):
                    r.errors.append(line.strip())
                    m2 = re.match(r"Error: Invariant (\S+) is violated", line)
                    if m2:
                        r.violated = m2.group(1)
                    if "Postcondition" in line and "false" in line:
                        r.postcondition_false = True
                    if "Deadlock reached" in line:
                        r.deadlock = True
                if "Postcondition" in line and "is false" in line:
                    r.postcondition_false = True

    def tlapm(self, module, timeout=900):
        """Check the TLAPS proofs of spec/<module>.tla with tlapm; returns the number of obligations proved."""
        import re
        try:
            p = subprocess.run(["tlapm", "--threads", "8", "--cleanfp", module + ".tla"], cwd=self.specdir,
                               capture_output=True, text=True, timeout=timeout)
        except subprocess.TimeoutExpired:
            raise InfraError("tlapm %s timed out" % module)
        out = p.stdout + p.stderr
        m = re.search(r"All (\d+) obligations? proved", out)
        if p.returncode != 0 or not m:
            raise InfraError("tlapm did not prove %s:\n%s" % (module, out[-3000:]))
        log("[tlapm] %s: %s obligations proved" % (module, m.group(1)))
        return int(m.group(1))

    def tlc_ok(self, r, what):
        """TLC must have finished cleanly (exit 0); anything else is infrastructure."""
        if r.exit != 0:
            tail = tail_file(r.stdout_path, 40)
            raise InfraError("TLC failed on %s (exit %s):\n%s" % (what, r.exit, tail))

    # ---------------------------------------------------------------- harness
    def harness(self, args, input_lines=None, race=False, timeout=1800, env=None, tags="verif"):
        """Run a harness sub-command; input/outputs are NDJSON lines (dicts)."""
        binp = self.build_harness(race=race, tags=tags)
        inp = None
        if input_lines is not None:
            inp = "".join(json.dumps(c, ensure_ascii=False) + "\n" for c in input_lines)
        e = dict(os.environ)
        e["VERIF_SEED"] = str(self.seed)
        if env:
            e.update(env)
        t = time.time()
        try:
            p = subprocess.run([binp] + args, input=inp, capture_output=True, text=True,
                               timeout=timeout, env=e, cwd=self.scratch, preexec_fn=None if race else limit_memory)
        except subprocess.TimeoutExpired:
            raise InfraError("harness %s timed out after %ds" % (args, timeout))
        if p.returncode != 0:
            err = HarnessDied("harness %s exit %d:\n%s\n...\n%s" % (args, p.returncode, p.stderr[:1500], p.stderr[-2500:]))
            err.stdout, err.stderr, err.returncode = p.stdout, p.stderr, p.returncode
            raise err
        out = []
        for line in p.stdout.split("\n"):
            line = line.strip()
            if not line:
                continue
            try:
                out.append(json.loads(line))
            except Exception:
                raise InfraError("harness printed non-JSON: %r" % line[:300])
        log("[harness] %s: %d in, %d out, %.1fs" % (" ".join(args[:3]),
                                                     len(input_lines or []), len(out), time.time() - t))
        if p.stderr.strip():
            log(p.stderr[-2000:])
        return out

    def write_ctx(self, ctx):
        """contexts (name -> forms) printed by TLC, handed to the harness as a file"""
        path = os.path.join(self.scratch, "ctx-%d.json" % len(self.tlc_runs))
        with open(path, "w") as f:
            json.dump(ctx, f, ensure_ascii=False)
        return ["-ctx", path]

    def harness_procs(self, args, cases, procs, timeout=1800):
        """Run the cases in `procs` harness PROCESSES (each single-threaded): for code under test
        with process-wide state (the stepper)."""
        import concurrent.futures
        self.build_harness()
        chunks = [cases[i::procs] for i in range(procs)]
        chunks = [c for c in chunks if c]
        def run(ch):
            try:
                return self.harness(args + ["-workers", "1"], ch, timeout=timeout)
            except InfraError as e:
                if "exit" not in str(e) or "timed out" in str(e):
                    raise
                return self._chunk_with_deaths(args + ["-workers", "1"], ch, timeout)
        with concurrent.futures.ThreadPoolExecutor(max_workers=len(chunks)) as ex:
            outs = list(ex.map(run, chunks))
        return [v for o in outs for v in o]

    def _replay_with_deaths(self, args, cases, died, race, timeout, env):
        """The parallel harness process died.  The cases in flight were the earliest ones without a verdict: they are
        re-run one process each (the one that kills its process gets the verdict "crash"); the rest resumes in parallel."""
        verdicts, pending = [], list(cases)
        rounds = 0
        while True:
            done = {}
            for line in died.stdout.split("\n"):
                try:
                    v = json.loads(line)
                    done[v["id"]] = v
                except Exception:
                    pass
            verdicts += [done[c["id"]] for c in pending if c["id"] in done]
            pending = [c for c in pending if c["id"] not in done]
            if not pending:
                return verdicts
            rounds += 1
            if rounds > 25:
                raise InfraError("the harness keeps dying (25 rounds); last: %s" % died.stderr[:800])
            suspects, pending = pending[:48], pending[48:]
            verdicts += self._chunk_with_deaths(args + ["-workers", "1"], suspects, timeout)
            if not pending:
                return verdicts
            if sum(1 for v in verdicts if v.get("verdict") == "crash") >= 3 or rounds >= 6:
                # enough culprits identified: the remaining cases are not run (recorded in the evidence)
                self.extra["replay_truncated_after_process_deaths"] = len(pending)
                return verdicts + [{"id": c["id"], "verdict": "skip", "class": "not-run"} for c in pending]
            try:
                verdicts += self.harness(args, pending, race=race, timeout=timeout, env=env)
                return verdicts
            except HarnessDied as again:
                died = again

    def _chunk_with_deaths(self, args, cases, timeout):
        """A harness process died while running `cases` (a fatal error of the Go runtime cannot be recovered:
        stack overflow, concurrent map access).  Re-run them, restarting after every death; the case being run
        when the process dies gets the verdict "crash"."""
        binp = self.build_harness()
        pending, verdicts, deaths = list(cases), [], 0
        while pending:
            inp = "".join(json.dumps(c, ensure_ascii=False) + "\n" for c in pending)
            p = subprocess.run([binp] + args, input=inp, capture_output=True, text=True, timeout=timeout, cwd=self.scratch,
                               preexec_fn=limit_memory)
            done = []
            for line in p.stdout.split("\n"):
                try:
                    done.append(json.loads(line))
                except Exception:
                    pass
            verdicts += done
            if p.returncode == 0 and len(done) == len(pending):
                break
            if len(done) >= len(pending):
                raise InfraError("harness died after finishing its cases: %s" % p.stderr[:1000])
            culprit = pending[len(done)]
            m = re.search(r"^(fatal error|panic): (.*)$", p.stderr, re.M)
            why = m.group(2)[:120] if m else "unknown"
            verdicts.append({"id": culprit["id"], "verdict": "crash", "class": "crash",
                             "key": "crash:%s:%s" % (why.replace(" ", "-"), culprit.get("tag") or culprit.get("kind")),
                             "note": "the process running this case was killed by the Go runtime: %s" % why})
            pending = pending[len(done) + 1:]
            deaths += 1
            if deaths >= 4:
                verdicts += [{"id": c["id"], "verdict": "skip", "class": "not-run"} for c in pending]
                self.extra["replay_truncated_after_process_deaths"] = self.extra.get("replay_truncated_after_process_deaths", 0) + len(pending)
                break
        self.extra["process_deaths"] = self.extra.get("process_deaths", 0) + deaths
        return verdicts

    def replay(self, cases, args=None, race=False, timeout=1800, double_check=True, env=None, procs=0):
        """Direction A: run cases on the real code; handle verdicts."""
        if not cases:
            return []
        if procs:
            verdicts = self.harness_procs(["replay"] + (args or []), cases, procs, timeout=timeout)
        else:
            try:
                verdicts = self.harness(["replay"] + (args or []), cases, race=race, timeout=timeout, env=env)
            except HarnessDied as died:
                verdicts = self._replay_with_deaths(["replay"] + (args or []), cases, died, race, timeout, env)
                double_check = False
        if len(verdicts) != len(cases):
            raise InfraError("harness returned %d verdicts for %d cases" % (len(verdicts), len(cases)))
        byid = {c["id"]: c for c in cases}
        bad = []
        for v in verdicts:
            vd = v.get("verdict")
            self.classes[v.get("class", "?")] = self.classes.get(v.get("class", "?"), 0) + 1
            if vd == "infra":
                raise InfraError("harness could not run case %s: %s" % (v["id"], v))
            if vd in ("abstain", "skip"):
                self.abstained += 1
                continue
            self.evaluations += 1
            self.distinct.add(v["id"])
            if vd != "ok":
                bad.append(v)
        if bad and double_check:
            # deterministic cases are executed a second time before being reported
            if procs:
                again = self.harness_procs(["replay"] + (args or []), [byid[v["id"]] for v in bad], procs, timeout=timeout)
            else:
                again = self.harness(["replay"] + (args or []), [byid[v["id"]] for v in bad],
                                     race=race, timeout=timeout, env=env)
            still = {a["id"]: a for a in again if a.get("verdict") not in ("ok", "abstain", "skip")}
            flaky = [v for v in bad if v["id"] not in still]
            if flaky:
                self.extra.setdefault("not_reproduced_on_second_run", []).extend(
                    [{"id": v["id"], "key": v.get("key")} for v in flaky[:20]])
            bad = [still[v["id"]] for v in bad if v["id"] in still]
        for v in bad:
            self.report(v.get("key") or v.get("verdict"), v.get("note") or v.get("verdict"),
                        {"case": byid[v["id"]], "verdict": v})
        step = max(1, len(cases) // 4)
        for c in cases[::step][:4]:
            if len(self.samples) < 8:
                self.samples.append(slim(c))
        return verdicts

    def replay_crashy(self, cases, args=None, timeout=600):
        """Replay cases one at a time in a child process that the case may KILL (a panic in a
        goroutine the harness cannot recover).  The culprit is the first case without a verdict."""
        binp = self.build_harness()
        pending = list(cases)
        crashes = 0
        while pending:
            inp = "".join(json.dumps(c, ensure_ascii=False) + "\n" for c in pending)
            p = subprocess.run([binp, "replay", "-workers", "1"] + (args or []), input=inp, capture_output=True,
                               text=True, timeout=timeout, cwd=self.scratch)
            done = []
            for line in p.stdout.split("\n"):
                try:
                    done.append(json.loads(line))
                except Exception:
                    pass
            byid = {c["id"]: c for c in pending}
            for v in done:
                self.evaluations += 1
                self.distinct.add(v["id"])
                if v.get("verdict") not in ("ok", "abstain", "skip"):
                    self.report(v.get("key") or v["verdict"], v.get("note") or v["verdict"],
                                {"case": byid.get(v["id"]), "verdict": v})
            if p.returncode == 0:
                break
            if len(done) >= len(pending):
                raise InfraError("harness died after finishing its cases: %s" % p.stderr[-1000:])
            culprit = pending[len(done)]
            crashes += 1
            m = re.search(r"^panic: (.*)$", p.stderr, re.M)
            site = re.search(r"github.com/jig/lisp(/[\w/]+)?\.([\w.()*]+)\(", p.stderr[p.stderr.find("panic:"):] if "panic:" in p.stderr else "")
            key = "crash:%s:%s" % (site.group(2) if site else "unknown", culprit.get("kind"))
            self.evaluations += 1
            self.distinct.add(culprit["id"])
            self.report(key, "process killed by a panic outside any recover: %s" % (m.group(1)[:200] if m else p.stderr[-300:]),
                        {"case": culprit, "stderr_tail": p.stderr[-1500:]})
            pending = pending[len(done) + 1:]
            if crashes > 40:
                self.extra["crash_replay_truncated"] = len(pending)
                break
        self.extra["process_crashes"] = crashes

    # ------------------------------------------------------- findings / report
    def report(self, key, what, payload):
        """A discrepancy observed on the real code."""
        fullkey = "%s:%s" % (self.prop, key)
        for k in self.known:
            if k.get("status") == "open" and key_matches(k["key"], fullkey):
                if k["key"] not in self.known_hits:
                    self.known_hits[k["key"]] = k.get("what", "")
                return
        self.per_key[fullkey] = self.per_key.get(fullkey, 0) + 1
        if self.per_key[fullkey] > 3:
            # enough replay files for this finding signature
            self.violations.append((fullkey, what, self.first_path.get(fullkey, "")))
            return
        sha = hashlib.sha1(json.dumps(payload, sort_keys=True, ensure_ascii=False).encode()).hexdigest()[:12]
        rdir = os.path.join(os.environ.get("VERIF_REPLAY_DIR") or os.path.join(VERIF, "replays"), self.prop)
        if os.environ.get("VERIF_NO_EVIDENCE"):
            rdir = os.path.join(self.scratch + "-replays", self.prop)
        os.makedirs(rdir, exist_ok=True)
        path = os.path.join(rdir, sha + ".json")
        payload = dict(payload)
        payload["property"] = self.prop
        payload["key"] = fullkey
        payload["what"] = what
        payload["repo"] = repo_describe()
        with open(path, "w") as f:
            json.dump(payload, f, indent=1, ensure_ascii=False)
        self.first_path.setdefault(fullkey, path)
        self.violations.append((fullkey, what, path))

    def finish(self, level="model_checking"):
        wall = time.time() - self.t0
        cov = {
            "states": max(self.states, 0),
            "transitions": max(self.transitions, 0),
            "traces_validated_against_impl": self.traces_validated,
            "evaluations": self.evaluations,
            "distinct_nontrivial": len(self.distinct),
            "rule": self.rule,
            "samples": self.samples[:8] or ["(none)"],
            "abstained": self.abstained,
            "outcome_classes": self.classes,
            "tlc_runs": self.tlc_runs,
            "known_findings_hit": sorted(self.known_hits),
        }
        if self.exhaustive is not None:
            cov["exhaustive"] = bool(self.exhaustive)
        cov.update(self.extra)
        ev = {
            "property_id": self.prop, "tier": self.tier, "seed": self.seed, "level": level,
            "coverage": cov, "assumptions": self.assumptions, "wall_s": round(wall, 1),
            "violations": len(self.violations),
        }
        if not os.environ.get("VERIF_NO_EVIDENCE"):
            os.makedirs(os.path.join(VERIF, "evidence"), exist_ok=True)
            with open(os.path.join(VERIF, "evidence", self.prop + ".json"), "w") as f:
                json.dump(ev, f, indent=1, ensure_ascii=False)
        for k, what in sorted(self.known_hits.items()):
            print("KNOWN-FINDING: property=%s %s [%s]" % (self.prop, what, k))
        seen = set()
        for key, what, path in self.violations:
            if key in seen:
                continue
            seen.add(key)
            if len(seen) > 25:
                break
            print("VIOLATION property=%s replay=%s key=%s %s" % (self.prop, path, key, what))
        self.cleanup()
        log("[done] %s %s: %d evaluations, %d states, %d traces, %d violations, %.1fs" %
            (self.prop, self.tier, self.evaluations, self.states, self.traces_validated,
             len(self.violations), wall))
        return 1 if self.violations else 0

    def cleanup(self):
        shutil.rmtree(self.scratch, ignore_errors=True)


def show(n):
    """compact text of a Node (for evidence samples)"""
    if not isinstance(n, dict) or "t" not in n:
        return n
    t = n["t"]
    if t == "nil":
        return "nil"
    if t == "bool":
        return "true" if n.get("i") else "false"
    if t == "int":
        return str(n.get("i", 0))
    if t == "str":
        return json.dumps(n.get("s", ""), ensure_ascii=False)
    if t == "kw":
        return ":" + n.get("s", "")
    if t == "sym":
        return n.get("s", "")
    if t in ("list", "vec"):
        o, c = ("(", ")") if t == "list" else ("[", "]")
        return o + " ".join(show(x) for x in n.get("xs", [])) + c
    if t in ("map", "set"):
        m = n.get("m") or {}
        if t == "set":
            return "#{" + " ".join(sorted(m)) + "}"
        return "{" + " ".join("%s %s" % (k, show(v)) for k, v in sorted(m.items())) + "}"
    return "#<%s%s>" % (t, (":" + n["s"]) if n.get("s") else "")


def slim(c, limit=700):
    """a readable rendering of a case for the evidence file"""
    if not isinstance(c, dict):
        return c
    out = {}
    for k, v in c.items():
        if k == "forms":
            continue
        if k == "allow" and isinstance(v, dict):
            a = {"k": v.get("k")}
            if "v" in v:
                a["v"] = show(v["v"])
            if v.get("eff"):
                a["eff"] = [show(x) for x in v["eff"]]
            if isinstance(v.get("g"), dict):
                a["g"] = {g: show(x) for g, x in v["g"].items()}
            out[k] = a
        elif isinstance(v, dict) and "t" in v:
            out[k] = show(v)
        elif isinstance(v, list) and v and isinstance(v[0], dict) and "t" in v[0]:
            out[k] = [show(x) for x in v]
        else:
            out[k] = v
    s = json.dumps(out, ensure_ascii=False)
    return out if len(s) <= limit else s[:limit] + "..."


def key_matches(pattern, key):
    if pattern.endswith("*"):
        return key.startswith(pattern[:-1])
    return pattern == key


def load_known(prop):
    p = os.path.join(VERIF, "known_findings.json")
    if not os.path.exists(p):
        return []
    with open(p) as f:
        data = json.load(f)
    return [k for k in data.get("findings", []) if k.get("property") == prop]


def goenv():
    e = dict(os.environ)
    e.update({"GOFLAGS": "-mod=mod", "GOPROXY": "off", "GOSUMDB": "off", "GOTOOLCHAIN": "local"})
    return e


def repo_describe():
    try:
        h = subprocess.run(["git", "-C", REPO, "rev-parse", "--short", "HEAD"], capture_output=True, text=True).stdout.strip()
        d = subprocess.run(["git", "-C", REPO, "status", "--porcelain"], capture_output=True, text=True).stdout.strip()
        return h + ("-dirty" if d else "")
    except Exception:
        return "unknown"


def tail_file(path, n):
    try:
        with open(path, encoding="utf-8", errors="replace") as f:
            lines = [l for l in f.readlines() if not l.startswith('"CASE ')]
        return "".join(lines[-n:])
    except Exception as ex:  # noqa
        return str(ex)


def main(checks):
    """bin/check entry: checks = {ID: function(Check)}"""
    import argparse
    ap = argparse.ArgumentParser()
    ap.add_argument("prop")
    ap.add_argument("--tier", default=None)
    ap.add_argument("--seed", default=None)
    ap.add_argument("--replay", default=None)
    a = ap.parse_args()
    if a.prop not in checks:
        print("INFRA-ERROR unknown property %s" % a.prop)
        return 2
    ck = Check(a.prop, a.tier, a.seed)
    try:
        if a.replay:
            with open(a.replay) as f:
                payload = json.load(f)
            ck.replay([payload["case"]], args=payload.get("args"))
        else:
            checks[a.prop](ck)
        return ck.finish()
    except InfraError as ex:
        if ck.violations:
            # violations already observed on the real code stand; the part of the check that could not be run is
            # recorded (a tree on which the machinery itself breaks down after showing violations is not "unknown")
            print("INFRA-NOTE property=%s the check stopped early: %s" % (a.prop, str(ex)[:1500]))
            ck.extra["stopped_early"] = str(ex)[:1500]
            return ck.finish()
        print("INFRA-ERROR property=%s %s" % (a.prop, str(ex)[:3000]))
        ck.cleanup()
        return 2
    except Exception:
        import traceback
        print("INFRA-ERROR property=%s runner exception\n%s" % (a.prop, traceback.format_exc()))
        ck.cleanup()
        return 2
