#!/usr/bin/env python3
"""Regenerates /verif/MANIFEST.json from the table below (single source of truth)."""
import json
import os
import subprocess

VERIF = os.path.dirname(os.path.dirname(os.path.abspath(__file__)))

ALL = ["C%02d" % i for i in range(1, 21)]

# property -> (technique, level text, level note, design ref)
CLAIMED = {
    "C01": ("TLA+ definition layer (Def.tla big-step evaluator) enumerates every program up to a size bound with TLC; "
            "each TLC state is replayed through lisp.EVAL and compared (value, error-ness, effect order, globals); "
            "random larger programs recorded from the real code are validated by TraceDef.tla; Eval.tla (small-step "
            "machine of EVAL) is checked by TLC to refine Def and validated against every real loop iteration (TraceEval)",
            "Exhaustive small-scope model-based conformance: every program of the GenC01 grammar up to MaxSize nodes "
            "(quick 4: 26k programs, thorough 5: 575k) plus a random sample of larger ones is evaluated by the "
            "specification's definition layer in TLC and replayed on the real interpreter in a fresh environment.",
            "Trusts TLC, the Go runtime, the harness's JSON bridge and structural comparison; Def.tla is written from "
            "the mal guide/README, validated against the step files; programs beyond the bound are only sampled.",
            "§7 C01 (and §2, §3)"),
    "C13": ("TLA+ definition of every collection builtin (Coll.tla) as a total operator; TLC enumerates builtin x "
            "argument tuples; each is replayed as (f 'a1 ..) through lisp.EVAL and compared with the allowed outcome",
            "Exhaustive small-scope conformance of 49 builtins against the abstract sequence/map/set model: every "
            "argument tuple of arity 0..2 over a 37-value pool, arity 3 over a pool prefix, index sweeps (-1..7) of the "
            "13 position-taking calls on sequences with spare capacity, purity cases (one value made along 19 construction "
            "paths passed twice to the same builtin) (100k-300k calls); value "
            "(kind-exact, unordered results as multisets), error where the model says error; the oracle abstains "
            "where README/step files/mal guide are silent; random nested compositions of builtins recorded from the real "
            "code are validated by TraceDef.tla; the oracle itself is validated against tests/step*.mal (StepFiles.tla).",
            "Trusts TLC and the harness bridge; Coll.tla transcribes the documented behaviour (validated against the "
            "step files); argument values beyond the pool are not explored.",
            "§7 C13 (and §2, §3)"),
    "C14": ("TLA+ structural equality (Values.StructEq) decides every ordered pair of a pool of values built along "
            "different construction paths, TLC checks StructEq is an equivalence on the pool, the real (= a b) is "
            "replayed for every pair, and the OBSERVED matrix is validated by TLC (TraceEq.tla) as an equivalence",
            "Exhaustive over 89x89 ordered pairs incl. nil-valued maps, key-presence differences, kind confusions, strings "
            "built by str, integers beyond 2^53; "
            "plus trace validation of the observed relation (reflexive/symmetric/transitive over all triples).",
            "Trusts TLC, the harness bridge; pool-bounded.",
            "§7 C14 (and §2, §3)"),
    "C03": ("Def.tla defines try/catch/finally/throw exactly as the property states; TLC enumerates every program up to "
            "a size bound over a try/catch/finally grammar (throws from body, callee, macro, Go error return, Go panic, "
            "handler; thrown objects of every kind) and each is replayed through lisp.EVAL; random larger try programs are "
            "validated by TraceDef.tla and the real loop iterations of the grammar's programs by TraceEval.tla",
            "Exhaustive small-scope conformance: quick all programs <= 3 nodes (4.6k) + 4k sampled of size 5; thorough "
            "<= 4 nodes (110k) + 50k of size 6. Compared: result or thrown object (structural, sentinel identity via "
            "errors.Is for Go errors), effect order of body/handler/finally, catch variable not visible outside.",
            "Trusts TLC, harness bridge; finally bodies that throw are modelled as 'outcome discarded' (as the "
            "statement says the result is unchanged).",
            "§7 C03 (and §2, §3)"),
    "C12": ("Def.tla defines quasiquote as template substitution and macro calls by expansion in the caller's scope; TLC "
            "enumerates every template / macro-call program up to a size bound; replayed through lisp.EVAL (which "
            "implements the cons/concat/vec rewrite) and compared, including macroexpand and eval-of-macroexpand routes, once built "
            "directly and once printed and READ back (positioned forms); the lisp-defined protocol library (defprotocol/extend/"
            "satisfies?/find-type), memoize and the folds are evaluated by Def.tla from their own source text (mode lib); "
            "random larger templates validated by TraceDef.tla; real loop iterations (expansion inside the loop) by TraceEval.tla",
            "Exhaustive small-scope conformance of three grammars (quick: 28k templates + 16k macro programs + 4.6k library programs; thorough: "
            "~200k + ~70k): value, effect order, expansion (generated symbols up to renaming).",
            "Trusts TLC, harness bridge; position of the failure of a non-sequence splice relative to later effects is "
            "abstained on.",
            "§7 C12 (and §2, §3)"),
    "C02": ("Implementation-shaped TLA+ model of Go slices (GenC02.tla: heap of backing arrays, headers, in-place "
            "append when len<cap, which builtin copies/aliases/appends) explored by TLC over all operation histories; "
            "each history (model-dangerous ones flagged) replayed on the real code for every seed construction path, "
            "re-reading every earlier binding after every step, final values compared with Def.tla; long random "
            "histories recorded from the real code validated by TraceDef.tla",
            "Exhaustive over histories of length 2 (quick; thorough adds length 3 over the 19 ops that share or append) of "
            "31 sequence ops and 15 map ops x 18/11 seed construction paths x {text, AST} routes; 14 programs on values "
            "held by closures, atoms and rest-parameter lists (Def.SwapLoop models swap! as compare-and-set retry).",
            "Real slice capacities are decided by the Go runtime; the harness realises spare capacity through the "
            "seed paths and reports the (len,cap) pairs seen.",
            "§7 C02 (and §2, §3)"),
    "C05": ("Text.tla (character-level scanner/reader/printer definition) classifies EVERY string up to a length bound "
            "over five 14-character alphabets; TLC enumerates them (and asserts the model's own totality/round trip); "
            "each text is fed to every read entry point of the real code under recover and a watchdog; a random "
            "byte-string driver (invalid UTF-8, NUL, long inputs) monitors the same entry points",
            "Exhaustive small-scope totality check: 190k distinct texts of length <= 4 (quick), ~2.6M of length <= 5 "
            "(thorough), x 8 read routes (READ nil/loaded env, READWithPreamble, Read_str with nil/empty/populated "
            "placeholder map, read-string) followed by PRINT.",
            "Arbitrary byte strings beyond the alphabets (invalid UTF-8, NUL) are covered by the random driver only; "
            "trusts recover/watchdog.",
            "§7 C05 (and §2, §3)"),
    "C06": ("Text.tla defines printer and reader; TLC enumerates data values whose strings range over every string up to "
            "a length bound over the 12 characters the printer/reader treat specially (asserting the model's own round "
            "trip for each), and every accepted text of the C05/C16 enumerations; the real PRINT/READ and "
            "pr-str/read-string are replayed and compared structurally, the value read is compared with Text.tla's; "
            "a random value driver monitors the round trip beyond the alphabet",
            "Exhaustive small-scope round-trip conformance in both directions (values -> text -> values; text -> value "
            "-> text -> value): 9.5k/113k values, 160k/400k texts.",
            "Strings outside the alphabet only via the random driver; float literals excluded by the property.",
            "§7 C06 (and §2, §3)"),
    "C16": ("Text.tla's reader classifies every token sequence up to a length bound as complete / completable with "
            "closer c / malformed; TLC enumerates them; the real READ and the REPL's own multiLine classifier (verif "
            "export) must agree on every one; Repl.tla models the interactive loop as a state machine over typed lines "
            "(TLC checks its invariants) and every session up to 3 lines is piped into the real repl.Execute",
            "Exhaustive: all token sequences of length <= 4 (quick) / <= 5 (thorough) over two 14-token alphabets "
            "(every bracket kind, reader macros, strings/raw strings containing brackets, comments) + all character "
            "strings of length <= 4 over the bracket alphabets (118k / 1.2M judged texts).",
            "Input ending after a reader macro is not classified by the property (abstained).",
            "§7 C16 (and §2, §3)"),
    "C04": ("TLC enumerates the AST space (every special-form head x operand tuples over malformed-operand kinds, nesting "
            "templates, every function bound in the environment x argument tuples) and Def.tla classifies each AST; "
            "each is evaluated by the real EVAL bare and inside (try AST (catch e :caught)) under recover/watchdog, a "
            "sample also as a future body in a child process",
            "Exhaustive small-scope totality check: 73k ASTs quick (arity <= 2, 138 environment functions), ~1.2M thorough "
            "(arity <= 3). Violation only on an observed panic / hang / process death / error escaping try.",
            "Whether a malformed form is an error or a value is not judged; recursion depth bounded; trusts recover.",
            "§7 C04 (and §2, §3)"),
    "C15": ("Text.ReadWith defines token-level placeholder substitution; GenC15.tla carries an implementation-shaped model "
            "of the line-oriented preamble (AddPreamble / READWithPreamble as mal.go does them) and TLC evaluates both "
            "on every (source template, assignment) case, flagging the cases the design loses; the real "
            "READWithPreamble(AddPreamble(src,m)) and Read_str(src,m) are replayed and compared with the substitution",
            "Exhaustive over 24 source templates x 5 names x 30 values (3.6k cases; thorough adds all two-name "
            "assignments, 432k). The set of failing real cases coincided with the model-flagged set when first run.",
            "Value pool bounded; names over letters/digits/-/_ sampled by 5 representatives.",
            "§7 C15 (and §2, §3)"),
    "C19": ("Text.tla renders every program with 12 layouts and TLC asserts on the model that each rendering reads back to "
            "the same forms (layout insensitivity); Def.tla gives the program's meaning; the real code then runs the program "
            "through 8 delivery routes (incl. the AST built with the lnotation helpers), each compared with Def and all compared with each other; REPL sessions of Repl.tla "
            "are piped line by line into the real repl.Execute and the printed values compared",
            "Exhaustive over C01-grammar programs up to 2 (quick) / 3 (thorough) nodes + 22 multi-form programs x 12 layouts "
            "x 7 routes (8.5k / 120k route executions).",
            "Routes built by the harness (file written to a temp dir for load-file); REPL route compares the printed value "
            "re-read when it is data.",
            "§7 C19 (and §2, §3)"),
    "C17": ("GenC17.tla is a position model: it renders program texts from blocks, wrappers and faults and computes by line "
            "arithmetic the rows of the top-level form containing the fault and the fault's own row (asserting on the model "
            "that every rendering tokenizes); TLC enumerates them; the real error position is compared",
            "Exhaustive over 0..1 (quick) / 0..3 (thorough: 259 block prefixes) blocks x 17 wrappers x 4 faults x gap blocks "
            "x following form (2.6k / 97k texts), each evaluated form-by-form and as one do.",
            "Errors without a position are not judged (the property is conditional); load-file's own row offset is outside "
            "the property.",
            "§7 C17 (and §2, §3)"),
    "C20": ("GenC20.tla states the binder's contract as a function (invoke iff count within declared/derived bounds and every "
            "argument assignable; result conventions; panic wrapping; names); TLC enumerates shapes x bounds x argument lists x "
            "behaviours x entry points x import paths; 144 generated Go functions (in a dotted and a dot-less module) record "
            "whether they were entered and with what, and the real binder is exercised through lisp.EVAL",
            "Exhaustive over the shape/bounds/argument space described (45k cases quick, 190k thorough).",
            "Parameter typings limited to int / MalType / error-interface; registration with illegal declarations (bounds on a "
            "non-variadic function) is not exercised (the binder panics by design at registration).",
            "§7 C20 (and §2, §3)"),
    "C08": ("The definition layer carries the tail-call discipline (Def.tla st.depth: tail positions keep the depth, every "
            "other sub-evaluation is one level deeper); TLC enumerates every loop shape (nests of tail constructs, with and "
            "without one non-tail construct, over 1..3 mutually recursive functions), asserts on the model that tail shapes "
            "are constant and controls grow, and predicts the sign of every depth difference; the real host stack depth at "
            "each probe call is compared, and long runs of the tail shapes must stay constant; Eval.tla's count of live "
            "activations is compared for EQUALITY with the real number of EVAL frames at every loop iteration (TraceEval)",
            "Exhaustive over nests of depth <= 2 (quick, 3.8k loops) / <= 3 (thorough, ~30k), 4 iterations each, plus "
            "60/400 long runs (10^3..3*10^5 iterations).",
            "Absolute depths are not compared (only signs of differences): a refactor adding a constant number of frames is "
            "not an alarm; trusts runtime.Callers.",
            "§7 C08 (and §2, §3)"),
    "C18": ("Def.tla gives each program's outcome and the SET of (form, visible bindings) pairs its evaluation visits "
            "(quasiquote through the rewrite as coded, QQRewrite); TLC enumerates programs of three grammars; the real code "
            "runs each program without a stepper and under every cyclic command script up to a length bound (separate "
            "processes: the stepper is process-wide state), comparing outcome and every callback argument with the model; "
            "Eval.tla models the stepper's flag protocol step by step and TraceStep.tla validates every real consultation "
            "(form, live EVAL frames, flags, answer) of 22 scripts per program",
            "Exhaustive: 636 programs x 85 (quick) / ~2.4k programs x 341 (thorough) stepper scripts, programs delivered as "
            "AST and as text under a module name; 16k (quick) / 62k recorded consultation traces validated.",
            "Scripts are cyclic sequences (the callback's answer depends only on how many times it was called); the "
            "interactive debugger engine (keyboard) is not driven.",
            "§7 C18 (and §2, §3)"),
    "C09": ("AtomImpl.tla models the atom as Go's RWMutex (pending writers block new readers) + cell + version and every "
            "operation as its sequence of critical sections; TLC checks no-lost-update, failed-swap-keeps-cell, deadlock "
            "freedom and termination exhaustively on 5 scenarios (and shows the deadlocks of the previous lock-held "
            "design); recorded executions of the real code (hooks at the linearization points under the lock) are "
            "validated event by event by TraceAtom.tla; hangs judged structurally; race detector run; the compare-and-set "
            "design is additionally PROVED with TLAPS for any number of threads (AtomCasProof.tla) and AtomImpl is checked "
            "by TLC to refine that abstract machine",
            "Exhaustive model checking within 3 threads / 2 atoms / scripts of <= 2 operations; trace validation of 324 "
            "(quick) / 4k (thorough) real concurrent scenarios with up to 6 threads x 6 operations; binding self-test "
            "(a corrupted trace must be rejected).",
            "Real schedules are sampled (Gosched injected at the hooks), not enumerated; the race detector and "
            "runtime.Stack wait reasons are trusted; update functions that update the atom being swapped are excluded "
            "as in the property.",
            "§7 C09 (and §2, §3)"),
    "C10": ("FutureImpl.tla models the body goroutine, the two 1-slot channels, the flags and cancel's check-and-mark as "
            "separate steps; TLC checks P1..P7 exhaustively for 4 body kinds x with/without canceller x caller-context expiry "
            "(and exhibits the P4/P5 counterexample of the pre-repair design); that counterexample schedule is replayed "
            "deterministically into the real code through a gate at the delivery hook, random schedules are recorded and "
            "validated by TraceFuture.tla; derefs with an ended caller context while the body is held; race detector run; "
            "P1-P6 are additionally PROVED with TLAPS over FutureImpl itself for any set of deref threads (FutureProof.tla)",
            "Exhaustive model checking (2 derefers + canceller + body); deterministic replay of the model's window for each "
            "body kind; 154 (quick) / 3k (thorough) recorded real schedules validated; binding self-test.",
            "Real schedules sampled; ordering of overlapping operations not judged; race detector trusted.",
            "§7 C10 (and §2, §3)"),
    "C11": ("EnvLock.tla models the scope tree with one RWMutex per scope and lookups that climb holding their read locks; TLC "
            "checks deadlock freedom and reads-see-latest-set (and exhibits the deadlock of a shared-mutex variant); Def.tla "
            "gives every program's solo outcome; the real code runs every set of programs simultaneously on one environment "
            "and each must equal its solo outcome; the hook's per-scope operation log is validated by TraceEnv.tla; writer/"
            "reader logs of global definitions are validated by TraceRW.tla (linearizable register: seen entirely or not at "
            "all); race detector run",
            "Exhaustive over all pairs (quick, 136 sets x 2 repetitions) / triples (thorough, 816 sets x 4) of a 16-template "
            "pool; 46 / 300 recorded scope logs validated (42k+ events); binding self-test.",
            "Schedules are whatever the Go scheduler produces under load (not enumerated); programs with futures are not in "
            "the pool; the race detector is trusted.",
            "§7 C11 (and §2, §3)"),
    "C07": ("Cancel.tla models evaluation under a context (poll at every loop iteration, context-aware sleep/deref, try body "
            "under an 80 % child budget, handler/finally under the parent) and TLC explores cancellation / expiry at every "
            "step of 86 program shapes, checking a bound on post-cancel loop iterations and ended ~> done; the real context "
            "is cancelled by the loop-top hook at the k-th real loop iteration for 12 instants per shape and the real "
            "iteration count after cancellation is compared with the model's bound; deadline scenarios with a real timeout",
            "Exhaustive model checking of all shapes in both modes; 149 shapes (incl. evaluation under eval, deref of a "
            "cancelled future, a swap! retried for ever) x 12 deterministic cancellation instants x {plain, far deadline} on the "
            "real code (hook-driven, no wall clock in the verdict except a 5 s not-returned watchdog); 32 / 86 wall-clock "
            "deadline scenarios with >= 2.5 s slack, three attempts.",
            "Builtins are assumed short on small data (as the property states); the deadline part is coarse wall clock.",
            "§7 C07 (and §2, §3)"),
}

NOT_YET = "check not built yet in this round (planned in DESIGN.md §8; the specification module exists or is in progress)"


def hook_commits():
    try:
        out = subprocess.run(["git", "-C", "/repo", "log", "--format=%H %s"], capture_output=True, text=True).stdout
        return [l.split()[0] for l in out.splitlines() if " verif:" in " " + l or "verif hook" in l]
    except Exception:
        return []


def main():
    checks = []
    for pid in ALL:
        if pid not in CLAIMED:
            continue
        tech, text, note, ref = CLAIMED[pid]
        checks.append({
            "property_id": pid,
            "quick_cmd": "bin/check %s --tier quick" % pid,
            "thorough_cmd": "bin/check %s --tier thorough" % pid,
            "evidence_file": "/verif/evidence/%s.json" % pid,
            "replay_cmd_template": "bin/check %s --replay {path}" % pid,
            "engine": "tlc+harness",
            "level_claimed": {"category": "model_checking", "text": text, "design_ref": ref},
            "level_note": note,
            "technique": tech,
        })
    m = {
        "version": 1,
        "setup_cmd": "bin/setup",
        "hooks": {
            "guard": "verif",
            "enable": "go build -tags verif (the harness module replaces github.com/jig/lisp with /repo)",
            "baseline_off_cmd": "cd /repo && GOFLAGS=-mod=mod GOPROXY=off GOSUMDB=off go test -vet=off -count=1 -timeout 25m ./...",
            "source_commits": hook_commits(),
            "add_only": True,
        },
        "engines": [{
            "name": "tlc+harness", "path": "/verif/bin/check",
            "serves_properties": sorted(CLAIMED),
            "kind_free_text": "TLA+ specification in /verif/spec checked/enumerated by TLC; Go conformance harness in "
                              "/verif/harness replays TLC-generated cases into the code built from /repo and records "
                              "traces of the real code that TLC validates against the specification",
        }],
        "checks": checks,
        "notes": "Model-based verification with an explicit TLA+ specification; see DESIGN.md.",
        "not_applicable": [{"property_id": p, "reason": NOT_YET} for p in ALL if p not in CLAIMED],
    }
    with open(os.path.join(VERIF, "MANIFEST.json"), "w") as f:
        json.dump(m, f, indent=1)
    print("MANIFEST.json: %d checks, %d not_applicable" % (len(checks), len(m["not_applicable"])))


if __name__ == "__main__":
    main()
