------------------------------- MODULE EnvLock -------------------------------
(***************************************************************************)
(* C11: scopes.  Implementation-shaped model of env/env.go: a TREE of      *)
(* scopes, each a map guarded by its own Go RWMutex.  A lookup (Get/Find)  *)
(* takes the read lock of the scope it starts in and, while HOLDING it,    *)
(* climbs to the outer scope through that scope's locked entry point; a    *)
(* Set takes one write lock.  Go's RWMutex: a pending writer blocks new    *)
(* readers.                                                                *)
(*   Sharing == FALSE : every scope has its own mutex (the code)           *)
(*   Sharing == TRUE  : a child scope re-uses its parent's mutex (a        *)
(*                      plausible "optimisation"; shown to deadlock)       *)
(* Threads: readers looking a global up from a scope of depth 2, writers   *)
(* defining globals in the root.  Checked: deadlock freedom, and a lookup  *)
(* returns the value of the latest completed Set of the nearest scope that *)
(* holds the key (ReadsSeeLatestSet, via the history variable `latest`).   *)
(***************************************************************************)
EXTENDS Integers, Sequences, FiniteSets, TLC

CONSTANTS Sharing, Readers, Writers

\* scopes: 1 = root, 2 = child of 1, 3 = child of 2 (a let inside a call)
Outer == [s \in {1, 2, 3} |-> s - 1]
Mutex(s) == IF Sharing THEN 1 ELSE s

VARIABLES rd,      \* [mutex -> number of read locks held]
          wr,      \* [mutex -> writer thread or 0]
          pend,    \* [mutex -> set of threads blocked in Lock()]
          val,     \* value of the global key in the root (0 = unset)
          latest,  \* value of the latest COMPLETED Set
          pc, at,  \* per thread: label, scope currently being visited
          got,     \* per reader: value returned
          lo       \* per reader: `latest` when the lookup started
vars == <<rd, wr, pend, val, latest, pc, at, got, lo>>
Threads == Readers \cup Writers

Init == /\ rd = [m \in {1, 2, 3} |-> 0] /\ wr = [m \in {1, 2, 3} |-> 0] /\ pend = [m \in {1, 2, 3} |-> {}]
        /\ val = 0 /\ latest = 0
        /\ pc = [t \in Threads |-> "start"] /\ at = [t \in Threads |-> 3]
        /\ got = [t \in Readers |-> -1] /\ lo = [t \in Readers |-> 0]

\* reader: RLock(scope 3), miss, RLock(scope 2) [still holding 3], miss, RLock(scope 1), hit, unlock all
RLockScope(t) == /\ t \in Readers /\ pc[t] \in {"start", "climb"}
                 /\ wr[Mutex(at[t])] = 0 /\ pend[Mutex(at[t])] = {}
                 /\ rd' = [rd EXCEPT ![Mutex(at[t])] = @ + 1]
                 /\ lo' = IF pc[t] = "start" THEN [lo EXCEPT ![t] = latest] ELSE lo
                 /\ pc' = [pc EXCEPT ![t] = "look"] /\ UNCHANGED <<wr, pend, val, latest, at, got>>
Look(t) == /\ t \in Readers /\ pc[t] = "look"
           /\ IF at[t] = 1
              THEN /\ got' = [got EXCEPT ![t] = val] /\ pc' = [pc EXCEPT ![t] = "unwind"] /\ UNCHANGED at
              ELSE /\ at' = [at EXCEPT ![t] = Outer[at[t]]] /\ pc' = [pc EXCEPT ![t] = "climb"] /\ UNCHANGED got
           /\ UNCHANGED <<rd, wr, pend, val, latest, lo>>
\* the deferred RUnlocks run innermost call first: scope 1, then 2, then 3
Unwind(t) == /\ t \in Readers /\ pc[t] = "unwind"
             /\ rd' = [rd EXCEPT ![Mutex(at[t])] = @ - 1]
             /\ IF at[t] = 3 THEN pc' = [pc EXCEPT ![t] = "done"] /\ UNCHANGED at
                ELSE at' = [at EXCEPT ![t] = at[t] + 1] /\ UNCHANGED pc
             /\ UNCHANGED <<wr, pend, val, latest, got, lo>>

\* writer: Lock(root), set, unlock
WAnnounce(t) == /\ t \in Writers /\ pc[t] = "start" /\ pend' = [pend EXCEPT ![Mutex(1)] = @ \cup {t}]
                /\ pc' = [pc EXCEPT ![t] = "wait"] /\ UNCHANGED <<rd, wr, val, latest, at, got, lo>>
WAcquire(t) == /\ t \in Writers /\ pc[t] = "wait" /\ rd[Mutex(1)] = 0 /\ wr[Mutex(1)] = 0
               /\ wr' = [wr EXCEPT ![Mutex(1)] = t] /\ pend' = [pend EXCEPT ![Mutex(1)] = @ \ {t}]
               /\ pc' = [pc EXCEPT ![t] = "set"] /\ UNCHANGED <<rd, val, latest, at, got, lo>>
WSet(t) == /\ t \in Writers /\ pc[t] = "set" /\ val' = t /\ latest' = t /\ wr' = [wr EXCEPT ![Mutex(1)] = 0]
           /\ pc' = [pc EXCEPT ![t] = "done"] /\ UNCHANGED <<rd, pend, at, got, lo>>

AllDone == \A t \in Threads : pc[t] = "done"
Next == (\E t \in Threads : RLockScope(t) \/ Look(t) \/ Unwind(t) \/ WAnnounce(t) \/ WAcquire(t) \/ WSet(t))
        \/ (AllDone /\ UNCHANGED vars)
Spec == Init /\ [][Next]_vars

\* a lookup returns a value that was the latest completed Set at some moment of the lookup
ReadsSeeLatestSet == \A t \in Readers : pc[t] = "done" => (got[t] = lo[t] \/ got[t] \in Writers \/ got[t] = latest)
NoTornRead == \A t \in Readers : got[t] \in {-1, 0} \cup Writers
=============================================================================
