----------------------------- MODULE FutureProof -----------------------------
(***************************************************************************)
(* TLAPS proof (tlapm) that the repaired design of lib/concurrent.Future   *)
(* (FutureImpl.tla with Design = "fixed") satisfies P1, P2, P4, P5, P6 and *)
(* the step property P3 for ANY set of deref threads, any body kind, with  *)
(* or without a canceller and caller-context expiry -- where TLC           *)
(* (MCFuture) checks them for two derefers.                                *)
(***************************************************************************)
EXTENDS FutureImpl, TLAPS

ASSUME Fixed == Design = "fixed"
ASSUME ConstTypes == WithCancel \in BOOLEAN /\ CallerCtxEnds \in BOOLEAN

Out == IF outcome = "val" THEN "val" ELSE "err"

TypeOK ==
  /\ bpc \in {"init", "running", "evaluated", "marked", "finished"}
  /\ slot \in {"empty", "val", "err"}
  /\ done \in BOOLEAN /\ cancelled \in BOOLEAN /\ bodyCtxCancelled \in BOOLEAN
  /\ outcome \in {"none", "val", "err", "timeout"}
  /\ dpc \in [Derefers -> {"idle", "holding", "returned"}]
  /\ dres \in [Derefers -> {"none", "val", "err", "ctx"}]
  /\ cpc \in {"idle", "returned", "none"}
  /\ cres \in {"none", "true", "false"}
  /\ sawRunning \in BOOLEAN /\ starts \in Nat
  /\ completedUncancelled \in BOOLEAN /\ anyDerefReturned \in BOOLEAN
  /\ callerEnded \in BOOLEAN /\ startedAfter \in BOOLEAN

Inv ==
  /\ TypeOK
  /\ starts = (IF bpc = "init" THEN 0 ELSE 1)
  /\ (bpc \in {"marked", "finished"} => done)
  /\ (slot # "empty" => (bpc = "finished" /\ slot = Out))
  /\ \A d \in Derefers :
       /\ (dpc[d] = "holding" => (bpc = "finished" /\ dres[d] = Out))
       /\ (dpc[d] = "returned" => (dres[d] = "ctx" \/ (bpc = "finished" /\ dres[d] = Out)))
  /\ (anyDerefReturned => bpc = "finished")
  /\ (completedUncancelled => (done /\ ~cancelled))
  /\ (bodyCtxCancelled => cancelled)
  /\ ((cpc = "returned" /\ startedAfter) => (cres = "false" /\ completedUncancelled))
  /\ ((cpc = "returned" /\ sawRunning) => (cres = "true" /\ cancelled /\ bodyCtxCancelled))

THEOREM InitInv == Init => Inv
  BY Fixed, ConstTypes DEF Init, Inv, TypeOK, Out

THEOREM NextInv == Inv /\ [Next]_vars => Inv'
<1> SUFFICES ASSUME Inv, [Next]_vars PROVE Inv'
  OBVIOUS
<1> USE Fixed, ConstTypes
<1>0. CASE UNCHANGED vars
  BY <1>0 DEF Inv, TypeOK, Out, vars
<1>1. CASE BodyStart
  BY <1>1 DEF Inv, TypeOK, Out, BodyStart, Rest
<1>2. CASE BodyEval
  BY <1>2 DEF Inv, TypeOK, Out, BodyEval, Rest
<1>3. CASE BodyMarkDoneFirst
  BY <1>3 DEF Inv, TypeOK, Out, BodyMarkDoneFirst, Rest
<1>4. CASE BodyDeliver
  BY <1>4 DEF Inv, TypeOK, Out, BodyDeliver, Rest
<1>5. CASE BodySetDoneLast
  BY <1>5 DEF BodySetDoneLast
<1>6. ASSUME NEW d \in Derefers, DerefTake(d) PROVE Inv'
  BY <1>6 DEF Inv, TypeOK, Out, DerefTake
<1>7. ASSUME NEW d \in Derefers, DerefRedeposit(d) PROVE Inv'
  BY <1>7 DEF Inv, TypeOK, Out, DerefRedeposit
<1>8. ASSUME NEW d \in Derefers, DerefCtx(d) PROVE Inv'
  BY <1>8 DEF Inv, TypeOK, Out, DerefCtx
<1>9. CASE CallerEnds
  BY <1>9 DEF Inv, TypeOK, Out, CallerEnds
<1>10. CASE CancelCheck
  BY <1>10 DEF CancelCheck
<1>11. CASE CancelMark
  BY <1>11 DEF Inv, TypeOK, CancelMark
<1>12. CASE CancelAtomic
  BY <1>12 DEF Inv, TypeOK, Out, CancelAtomic
<1>13. CASE AllQuiet /\ UNCHANGED vars
  BY <1>13 DEF Inv, TypeOK, Out, vars
<1> QED
  BY <1>0, <1>1, <1>2, <1>3, <1>4, <1>5, <1>6, <1>7, <1>8, <1>9, <1>10, <1>11, <1>12, <1>13 DEF Next

\* the properties of FutureImpl follow from the invariant
THEOREM InvImplies == Inv => /\ P1_BodyOnce /\ P2_SameOutcome /\ P4_DerefImpliesDone
                            /\ P5_CancelAfterCompletionIsFalse /\ P6_CancelWhileRunning
  BY Fixed DEF Inv, TypeOK, Out, P1_BodyOnce, P2_SameOutcome, P4_DerefImpliesDone, P5_CancelAfterCompletionIsFalse, P6_CancelWhileRunning

\* P3: the flags never go back
THEOREM FlagsStep == Inv /\ [Next]_vars => ((done => done') /\ (cancelled => cancelled'))
<1> SUFFICES ASSUME Inv, [Next]_vars PROVE (done => done') /\ (cancelled => cancelled')
  OBVIOUS
<1> USE Fixed
<1> QED
  BY DEF Inv, TypeOK, Next, vars, BodyStart, BodyEval, BodyMarkDoneFirst, BodyDeliver, BodySetDoneLast, DerefTake,
         DerefRedeposit, DerefCtx, CallerEnds, CancelCheck, CancelMark, CancelAtomic, Rest

THEOREM Safety == Init /\ [][Next]_vars => [](P1_BodyOnce /\ P2_SameOutcome /\ P4_DerefImpliesDone
                                               /\ P5_CancelAfterCompletionIsFalse /\ P6_CancelWhileRunning)
<1>1. Inv /\ [][Next]_vars => []Inv
  BY NextInv, PTL
<1>2. Init /\ [][Next]_vars => []Inv
  BY InitInv, <1>1, PTL
<1> QED
  BY <1>2, InvImplies, PTL
=============================================================================
