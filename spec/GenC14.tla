------------------------------- MODULE GenC14 -------------------------------
(***************************************************************************)
(* C14 generator: (= a b) for every ordered pair of a pool of data values  *)
(* built along different construction paths (literals, hash-map, assoc,    *)
(* dissoc, conj, vec, set ...).  The pool entries are EXPRESSIONS; the     *)
(* definition layer evaluates them and decides equality with StructEq.     *)
(* Also checked on the model itself: StructEq is an equivalence on the     *)
(* pool (sanity of the oracle).                                            *)
(***************************************************************************)
EXTENDS Def, Json

PoolText == <<
  "nil", "false", "true", "0", "1", "-1", "(- 0 1)", "\"\"", "\"a\"", ":a", "'a", "(keyword \"a\")", "(symbol \"a\")",
  "(str \"a\")", "\"ʞa\"", "'()", "(list)", "[]", "(rest [1])", "{}", "(hash-map)", "#{}", "(set nil)",
  "(list 1 2)", "[1 2]", "(vec (list 1 2))", "(conj [1] 2)", "(list 1 2 3)", "[1 2 3]", "(list 2 1)",
  "[[1] 2]", "(list [1] 2)", "(list (list 1) 2)", "[[1 2]]",
  "{:a 1}", "(hash-map :a 1)", "(assoc {} :a 1)", "(dissoc {:a 1 :b 2} :b)", "{:a 2}", "{:b 1}",
  "{:a nil}", "{:b nil}", "{:a 1 :b 2}", "(assoc {:b 2} :a 1)", "{\"a\" 1}", "{:a [1]}", "{:a (list 1)}",
  \* map VALUES that are strings / keywords / symbols next to values of other kinds under the same key
  "{:a \"\"}", "{:a false}", "{:a 0}", "{:a \"a\"}", "{:a :a}", "{:a 'a}", "{:a \"1\"}", "{:k {:a \"\"}}", "{:k {:a nil}}",
  "{:a {:b nil}}", "{:a {:c nil}}", "{:a {}}", "{:a nil :b nil}", "{:a nil :c nil}",
  "#{:a}", "#{\"a\"}", "(set [:a])", "(hash-set :a :b)", "#{:b :a}", "(conj #{:a} :b)", "#{:a :b :c}", "#{:a :c}",
  "(list nil)", "[nil]", "(list false)", "'(a)", "['a]", "[:a]", "[\"a\"]", "(list \"a\")", "[0]", "[\"\"]", "[()]", "[[]]",
  \* integers that differ only below the precision of a 64-bit float (2^53 + 1, 2^53; two timestamps 1 ns apart)
  \* EMPTY sequences the builtins hand out (some have no backing array at all)
  "(rest ())", "(rest nil)", "(concat)", "(range 2 2)", "(vec (rest ()))", "[1 (rest ())]", "(list 1 [])", "{:a (range 2 2)}", "{:a ()}",
  \* strings built by str from one keyword / symbol / number / nil
  "(str :a)", "(str 'a)", "(str 1)", "(str nil)", "\":a\"",
  "9007199254740993", "9007199254740992", "170000000000000001", "170000000000000000", "[9007199254740993]",
  "-9007199254740993", "(list 9007199254740992)" >>

Pool == [k \in 1..Len(PoolText) |-> Parse(PoolText[k])]
NP == Len(PoolText)

ASSUME InitRegisters
ASSUME TLCSet(2, Norm(Base))
ASSUME TLCSet(3, Norm(Pool))
\* the values the pool expressions denote
ASSUME TLCSet(4, Norm([k \in 1..NP |-> LET r == Run(<<Pool[k]>>) IN IF Ok(r) THEN r.v ELSE Assert(FALSE, <<"pool", k, r.k>>)]))

\* sanity of the oracle: StructEq is an equivalence relation on the pool
ASSUME LET V == TLCGet(4) IN
  /\ \A i \in 1..NP : StructEq(V[i], V[i])
  /\ \A i, j \in 1..NP : StructEq(V[i], V[j]) = StructEq(V[j], V[i])
  /\ \A i, j, k \in 1..NP : StructEq(V[i], V[j]) /\ StructEq(V[j], V[k]) => StructEq(V[i], V[k])

\* kind of a value as used in finding signatures (strings that begin with the keyword
\* marker U+029E are a class of their own: the implementation cannot tell them from keywords)
KindSig(v) == IF v.t = "str" /\ Len(v.s) >= 1 /\ SubSeq(v.s, 1, 1) = KwMark THEN "str/kwmark" ELSE v.t

\* "shared" mode: both operands are DERIVED FROM ONE value v (they may share structure in
\* the implementation): (let [v E] (= (F v) (G v))) for sequence-valued E and derivations F, G
SeqPool == <<"[1 2 3]", "(list 1 2 3)", "(conj [1 2] 3)", "(vec (list 1 2))", "[[1] [2]]", "(rest [0 1 2])">>
Derive == <<"v", "(subvec (vec v) 0 1)", "(subvec (vec v) 1)", "(rest v)", "(seq v)", "(vec v)", "(take 1 v)",
            "(conj v 4)", "(concat v [])", "(cons 1 (rest v))", "(drop-last 1 v)", "(with-meta v {:m 1})", "[v]", "{:k v}",
            "{:k (rest v)}", "[(vec v)]">>
NS == Len(SeqPool) * Len(Derive)
SharedProg(i, j) ==
  \* i encodes (E, F), j encodes G
  LET e == ((i - 1) \div Len(Derive)) + 1
      f == ((i - 1) % Len(Derive)) + 1
      g == ((j - 1) % Len(Derive)) + 1
  IN ListV(<<SymV("let"), VecV(<<SymV("v"), Parse(SeqPool[e])>>),
             ListV(<<SymV("="), Parse(Derive[f]), Parse(Derive[g])>>)>>)

CONSTANT Mode   \* "pairs" | "shared"

VARIABLES i, j, ph
Init == /\ ph = 0
        /\ IF Mode = "pairs" THEN i \in 1..NP /\ j \in 1..NP ELSE i \in 1..NS /\ j \in 1..Len(Derive)
Next == /\ ph = 0 /\ ph' = 1 /\ UNCHANGED <<i, j>>
        /\ IF Mode = "shared"
           THEN LET prog == SharedProg(i, j)
                    r == Run(<<prog>>)
                    c == [kind |-> "prog", tag |-> "eq-shared", sig |-> "=shared", src |-> PrStr(prog), forms |-> <<prog>>,
                          i |-> i, j |-> j, allow |-> Outcome(r, {})]
                IN PrintT("CASE " \o ToJson(c))
           ELSE
           LET pool == TLCGet(3)
               prog == ListV(<<SymV("="), pool[i], pool[j]>>)
               r == Run(<<prog>>)
               V == TLCGet(4)
               c == [kind |-> "prog", tag |-> "eq", sig |-> "=(" \o KindSig(V[i]) \o "," \o KindSig(V[j]) \o ")",
                     src |-> PrStr(prog), forms |-> <<prog>>, i |-> i, j |-> j,
                     allow |-> Outcome(r, {})]
           IN PrintT("CASE " \o ToJson(c))
Spec == Init /\ [][Next]_<<i, j, ph>>
=============================================================================
