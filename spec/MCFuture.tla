------------------------------ MODULE MCFuture ------------------------------
EXTENDS Integers, Sequences, FiniteSets, TLC
CONSTANTS DesignC, BodyKindC, WithCancelC, CallerCtxEndsC
VARIABLES bpc, slot, done, cancelled, bodyCtxCancelled, outcome, dpc, dres, cpc, cres, sawRunning, starts,
          completedUncancelled, anyDerefReturned, callerEnded, startedAfter
F == INSTANCE FutureImpl WITH Design <- DesignC, Derefers <- {1, 2}, BodyKind <- BodyKindC,
                              WithCancel <- WithCancelC, CallerCtxEnds <- CallerCtxEndsC
Spec == F!Spec
P1 == F!P1_BodyOnce
P2 == F!P2_SameOutcome
P3 == F!P3_FlagsMonotone
P4 == F!P4_DerefImpliesDone
P5 == F!P5_CancelAfterCompletionIsFalse
P6 == F!P6_CancelWhileRunning
P7 == F!P7_Termination
=============================================================================
