-------------------------------- MODULE Enum --------------------------------
(***************************************************************************)
(* Exhaustive, index-addressable enumeration of all terms of a grammar up  *)
(* to a size bound.  A grammar is given as texts (read with Text.Read):    *)
(*   leaves : terms of size 1                                              *)
(*   un/bin/ter : templates with holes _1 _2 _3 (size = 1 + sizes of the   *)
(*                hole fillers)                                            *)
(* Term number k of size n is DECODED arithmetically (mixed radix), so the *)
(* model checker's initial states are plain integers and the decoding and  *)
(* evaluation of every term happens in parallel in the Next step.          *)
(***************************************************************************)
EXTENDS Text

ParseAll(texts) == [k \in 1..Len(texts) |-> Parse(texts[k])]
Grammar(leaves, un, bin, ter) ==
  [leaves |-> ParseAll(leaves), un |-> ParseAll(un), bin |-> ParseAll(bin), ter |-> ParseAll(ter)]

HoleIdx(s) == CASE s = "_1" -> 1 [] s = "_2" -> 2 [] s = "_3" -> 3 [] OTHER -> 0

RECURSIVE Subst(_, _)
Subst(t, args) ==
  IF t.t = "sym" /\ HoleIdx(t.s) # 0 THEN args[HoleIdx(t.s)]
  ELSE IF t.t \in {"list", "vec"} THEN [t EXCEPT !.xs = [k \in 1..Len(t.xs) |-> Subst(t.xs[k], args)]]
  ELSE IF t.t = "map" THEN [t EXCEPT !.m = [k \in DOMAIN t.m |-> Subst(t.m[k], args)]]
  ELSE t

RECURSIVE SumBin(_, _, _), SumTer(_, _, _, _)
\* sum over splits i + (m - i) = m
SumBin(T, m, i) == IF i > m - 1 THEN 0 ELSE T[i] * T[m - i] + SumBin(T, m, i + 1)
\* sum over splits i + j + l = m
SumTer(T, m, i, j) ==
  IF i > m - 2 THEN 0
  ELSE IF j > m - 1 - i THEN SumTer(T, m, i + 1, 1)
  ELSE T[i] * T[j] * T[m - i - j] + SumTer(T, m, i, j + 1)

RECURSIVE CountTab(_, _, _)
\* T[n] = number of terms with exactly n nodes, for n = 1..N
CountTab(G, N, T) ==
  IF Len(T) >= N THEN T
  ELSE LET n == Len(T) + 1
           c == IF n = 1 THEN Len(G.leaves)
                ELSE Len(G.un) * T[n - 1] + Len(G.bin) * SumBin(T, n - 1, 1) + Len(G.ter) * SumTer(T, n - 1, 1, 1)
       IN CountTab(G, N, Append(T, c))

RECURSIVE Decode(_, _, _, _), DecodeBin(_, _, _, _, _), DecodeTer(_, _, _, _, _, _)
\* term number k (0-based) among the terms with exactly n nodes
Decode(G, T, n, k) ==
  IF n = 1 THEN G.leaves[k + 1]
  ELSE LET u == Len(G.un) * T[n - 1] IN
    IF k < u THEN Subst(G.un[(k \div T[n - 1]) + 1], <<Decode(G, T, n - 1, k % T[n - 1])>>)
    ELSE DecodeBin(G, T, n, k - u, 1)

DecodeBin(G, T, n, k, i) ==
  IF i > n - 2 THEN DecodeTer(G, T, n, k, 1, 1)
  ELSE LET per == T[i] * T[n - 1 - i]
           blk == Len(G.bin) * per
       IN IF k < blk
          THEN LET r == k % per IN
                 Subst(G.bin[(k \div per) + 1],
                       <<Decode(G, T, i, r \div T[n - 1 - i]), Decode(G, T, n - 1 - i, r % T[n - 1 - i])>>)
          ELSE DecodeBin(G, T, n, k - blk, i + 1)

DecodeTer(G, T, n, k, i, j) ==
  IF i > n - 3 THEN Assert(FALSE, <<"Decode: index out of range", n, k>>)
  ELSE IF j > n - 2 - i THEN DecodeTer(G, T, n, k, i + 1, 1)
  ELSE LET l == n - 1 - i - j
           per == T[i] * T[j] * T[l]
           blk == Len(G.ter) * per
       IN IF k < blk
          THEN LET r == k % per
                   r2 == r % (T[j] * T[l])
               IN Subst(G.ter[(k \div per) + 1],
                        <<Decode(G, T, i, r \div (T[j] * T[l])), Decode(G, T, j, r2 \div T[l]), Decode(G, T, l, r2 % T[l])>>)
          ELSE DecodeTer(G, T, n, k - blk, i, j + 1)
=============================================================================
