-------------------------------- MODULE Repl --------------------------------
(***************************************************************************)
(* The interactive read-eval-print loop (repl/repl.go: Execute) as a state *)
(* machine, one action per line typed:                                     *)
(*                                                                         *)
(*   Feed(line):  the line is trimmed and appended to the pending buffer;  *)
(*     the buffer joined with newlines is READ;                            *)
(*       no token at all (blank, comment)   -> keep the buffer, no output  *)
(*       incomplete (C16: closer c expected, got EOF)                      *)
(*                                          -> keep the buffer, no output  *)
(*       not a token sequence / malformed   -> one error line, buffer := <<>> *)
(*       one complete expression            -> evaluated in the session's  *)
(*            environment (which persists, also across errors); one output *)
(*            line: the printed value, or the error; buffer := <<>>        *)
(*                                                                         *)
(* The definition layer supplies READ (Text.tla) and evaluation (Def.tla). *)
(* Checked by TLC on every session over a line alphabet:                   *)
(*   BufferIsPending   the buffer never holds a complete or malformed text *)
(*   OneOutputPerStep  a line produces at most one output line             *)
(*   LineByLineEqualsWhole  (C16/C19) feeding a well-formed expression     *)
(*       split over several lines gives the same output as feeding it on   *)
(*       one line -- checked by the generator over every split             *)
(* Bound to the code in direction A: every enumerated session is piped,    *)
(* line by line, into the real repl.Execute running in a child process,    *)
(* and the sequence of output lines is compared.                           *)
(***************************************************************************)
EXTENDS Def

ASSUME InitRegisters

\* strings.TrimSpace on the characters of the model's alphabet
RECURSIVE LTrim(_), RTrim(_)
LTrim(s) == IF s # "" /\ Ch(s, 1) \in WS THEN LTrim(SubSeq(s, 2, Len(s))) ELSE s
RTrim(s) == IF s # "" /\ Ch(s, Len(s)) \in WS THEN RTrim(SubSeq(s, 1, Len(s) - 1)) ELSE s
Trim(s) == RTrim(LTrim(s))

\* a session: pending buffer, environment/state of the definition layer, output lines so far
Session0 == [buf |-> <<>>, st |-> Base, outs |-> <<>>, bad |-> FALSE]

OutVal(v, st) == [k |-> "val", v |-> Abstract(v, st)]
OutThr(v, st) == [k |-> "thr", v |-> Abstract(v, st)]
OutErr(why)   == [k |-> "err", v |-> StrV(why)]

\* one line typed.  bad = the oracle abstains from here on (outside the fragment of the definition layer)
Feed(s, line) ==
  IF s.bad THEN s
  ELSE LET buf2 == Append(s.buf, Trim(line))
           text == Join(buf2, "\n")
           r == Read(text)
       IN CASE r.st \in {"empty", "incomplete"} -> [s EXCEPT !.buf = buf2]
            [] r.st \in {"lexerr", "malformed"} -> [s EXCEPT !.buf = <<>>, !.outs = Append(@, OutErr(r.closer))]
            [] r.st = "unspec" -> [s EXCEPT !.bad = TRUE]
            [] r.st = "ok" ->
                 LET e == Ev(r.v, 1, [s.st EXCEPT !.fuel = Fuel0]) IN
                   CASE e.k = "val" -> [s EXCEPT !.buf = <<>>, !.st = e.st, !.outs = Append(@, OutVal(e.v, e.st))]
                     [] e.k = "thr" -> [s EXCEPT !.buf = <<>>, !.st = e.st, !.outs = Append(@, OutThr(e.v, e.st))]
                     \* (the class of the host error: an unnamed one may surface as an error object or as a thrown message)
                     [] e.k = "err" -> [s EXCEPT !.buf = <<>>, !.st = e.st, !.outs = Append(@, OutErr("eval:" \o e.v.s))]
                     [] OTHER -> [s EXCEPT !.bad = TRUE]

RECURSIVE FeedAll(_, _, _)
FeedAll(s, lines, i) == IF i > Len(lines) THEN s ELSE FeedAll(Feed(s, lines[i]), lines, i + 1)

\* line alphabets of the bounded instances
AlphaQuick == <<
  "(+ 1", "2)", "(def a", "5)", "a", "", "; c", ")", "[1 ; k", "2]", "(throw [1])", "  (list a 1)  ", "1 2", "\"s",
  "(let [b 2]", "(* b 3))" >>
AlphaMore == AlphaQuick \o <<
  "{:k", "'(", "x y)", "}", "(nth [1] 3)", "(def f (fn [n] (+ n a)))", "(f 1)", "\"a;b\"", "(do", "(def a 7) a)" >>

\* ------------------------------------------------------------ as a state machine
CONSTANTS Alphabet,   \* sequence of lines that may be typed
          MaxLines
VARIABLES sess, typed
vars == <<sess, typed>>
Init == sess = Session0 /\ typed = <<>>
Type(i) == /\ Len(typed) < MaxLines /\ typed' = Append(typed, i) /\ sess' = Feed(sess, Alphabet[i])
Next == \E i \in 1..Len(Alphabet) : Type(i)
Spec == Init /\ [][Next]_vars

BufferIsPending == sess.bad \/ sess.buf = <<>> \/ Read(Join(sess.buf, "\n")).st \in {"empty", "incomplete"}
OneOutputPerStep == [][Len(sess'.outs) <= Len(sess.outs) + 1]_vars
\* the environment is only changed by a step that produces an output
QuietStepsKeepState == [][(Len(sess'.outs) = Len(sess.outs)) => (sess'.st = sess.st)]_vars
=============================================================================
