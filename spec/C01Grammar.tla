----------------------------- MODULE C01Grammar -----------------------------
(***************************************************************************)
(* The program grammar and context shared by the C01 generator and by the  *)
(* generators that reuse its programs (C19 delivery routes, C18 stepper,   *)
(* C11 concurrent evaluations).                                            *)
(***************************************************************************)
EXTENDS Def, Enum

C01CtxText == "(def x 10) (def f (fn [x & y] (trace! (list :f x y)) (if x (first y) y))) (def g (fn [] x))"
C01CtxForms == ReadAll(C01CtxText)

C01G == Grammar(
  <<"0", "1", "nil", "false", "\"\"", "()", "x", "y", "(g)", "(do)", "(f)",
    \* functions without a body: nil when the arguments fit, an error when one is missing
    "((fn []))", "((fn [y]))">>,
  <<"(trace! _1)", "(def x _1)", "(def y _1)", "(quote _1)", "(f _1)", "(fn [y] _1)", "((fn [] _1))",
    \* a closure made in a let, then a let in TAIL position of that let rebinding / shadowing what the closure reads
    "(let [y (fn [] x)] (let [x _1] (list (y) x)))", "(let [x 1 y (fn [] x)] (if true (let [x _1] (list (y) x))))",
    \* a closure with a rest parameter under map / apply: each call has its own argument list
    "(map (fn [& y] y) (list _1 x 1))", "(apply (fn [x & y] (list x y)) _1 (list x 1))",
    \* two results derived from one list by builtin calls, and the list itself
    "(let [y (quote (_1 2 3))] (list (concat y (list 1)) (concat y (list 2)) (cons 0 y) y))",
    \* a call of something that is not a function, in tail position of a body
    "(do x (0 _1))",
    \* statements that are vector / map literals: their elements are evaluated, in order, for effect
    "(do [(trace! 1) _1] x)", "((fn [] {:a (trace! _1)} x))", "(let [y 1] [(trace! y)] _1)",
    \* a body-less function called with too few arguments: the operand is evaluated, then the call fails
    "((fn [x y]) _1)">>,
  <<"(if _1 _2)", "(do _1 _2)", "(let [x _1] _2)", "(let [y _1] _2)", "((fn [y] _2) _1)",
    "((fn [& y] _2) _1)", "(+ _1 _2)", "(list _1 _2)", "(f _1 _2)", "(_1 _2)">>,
  <<"(if _1 _2 _3)", "(let [x _1 y _2] _3)", "(let [x _1] _2 _3)", "((fn [x y] _3) _1 _2)",
    "((fn [x & y] _3) _1 _2)">>)

=============================================================================
