-------------------------------- MODULE Eval --------------------------------
(***************************************************************************)
(* Implementation-shaped layer of the evaluator: a small-step machine      *)
(* structured like mal.go's EVAL.                                          *)
(*                                                                         *)
(* An ACTIVATION is one Go call of EVAL: the loop variables (ast, env) and *)
(* the deferred `finally` bodies it registered.  The machine's control     *)
(* holds the running activation; `k` is the stack of SUSPENDED activations *)
(* each with a LOCAL CONTINUATION saying where inside EVAL (or inside a    *)
(* builtin that re-entered the evaluator) it waits for a sub-evaluation.   *)
(* A form in tail position (let/do/if/quasiquote/closure application/the   *)
(* handler's last form) overwrites ast/env and takes another LOOP TOP step *)
(* of the SAME activation: nothing is pushed.  Hence                       *)
(*        Depth == Len(k) + 1 == number of live Go EVAL activations.       *)
(*                                                                         *)
(* The machine is deterministic; Step(cfg) is a function.  Every loop-top  *)
(* step appends <<printed form, depth>> to `tops`: this is what the hook   *)
(* lisp.VerifLoopTop observes on the real code (trace validation), and     *)
(* Len(kont) at the probe builtin is what C08 talks about.                 *)
(* Checked by TLC: refinement of the definition layer (EvalRefinesDef:     *)
(* same outcome and effect log as Def for every program of the bound),     *)
(* NeverStuck (every non-final configuration has a step).                  *)
(***************************************************************************)
EXTENDS Def

\* control modes: "top" (loop top of the running activation), "ret" (it returns v), "raise" (it returns an error), "done"
NoDbg == [on |-> FALSE, skip |-> FALSE, o1 |-> FALSE, o2 |-> FALSE, script |-> <<>>, pos |-> 0, log |-> <<>>]
Cfg(m, a, e, v, d, k, st, tops) == [m |-> m, a |-> a, e |-> e, v |-> v, d |-> d, k |-> k, st |-> st, tops |-> tops, dbg |-> NoDbg]

(***************************************************************************)
(* The stepper (C18).  lisp.Stepper is consulted at the ENTRY of an        *)
(* activation unless `skip` is set; its answer drives three process-wide   *)
(* flags exactly as mal.go does:                                           *)
(*   Next : skip := TRUE now, skip := FALSE when this activation exits     *)
(*   In   : skip := FALSE, outing1 := FALSE                                *)
(*   Out  : skip := TRUE, outing1 := TRUE                                  *)
(*   the `do` helper, if outing1 holds when it is ENTERED, sets            *)
(*          skip := TRUE, outing1 := FALSE, outing2 := TRUE when it returns*)
(*   an activation entered while outing2 holds resets skip and outing2     *)
(*          when it exits                                                  *)
(* and while a stepper is installed the loop bottom RECURSES (a new        *)
(* activation) instead of looping; the catch handler's last form still     *)
(* `continue`s in place.  dbg.log records every consultation: <<form,      *)
(* depth, outing1, outing2, answer>>.                                      *)
(***************************************************************************)
FlagOut(c) == [c EXCEPT !.dbg.skip = TRUE, !.dbg.o1 = FALSE, !.dbg.o2 = TRUE]
\* the do helper was entered with outing1 set: its deferred flag update runs when it returns
HelperDone(c, pend) == IF pend THEN FlagOut(c) ELSE c
Pend(c) == c.dbg.on /\ c.dbg.o1
\* v for "raise": [k |-> "thr"|"err", v |-> node]

Fr(t, x) == [t |-> t] @@ x
Push(c, fr) == Append(c.k, fr @@ [d |-> c.d, ce |-> c.e])    \* the suspended activation keeps its defers and its scope

\* start a sub-evaluation (a NEW activation) of form a in scope e; the current activation waits in frame fr
Sub(c, fr, a, e) == [c EXCEPT !.m = "enter", !.a = a, !.e = e, !.d = <<>>, !.k = Push(c, fr)]
\* continue in the SAME activation (tail position)
\* tail position reached through the loop BOTTOM: loops, or (stepper installed) recurses into a new activation
TailTo(c, a, e) == IF c.dbg.on THEN [c EXCEPT !.m = "enter", !.a = a, !.e = e, !.d = <<>>, !.k = Push(c, Fr("ktail", <<>>))]
                   ELSE [c EXCEPT !.m = "top", !.a = a, !.e = e]
\* the catch handler's last form: `continue`, always the same activation
ContinueTo(c, a, e) == [c EXCEPT !.m = "top", !.a = a, !.e = e]
Ret(c, v) == [c EXCEPT !.m = "ret", !.v = v]
Raise(c, kind, v) == [c EXCEPT !.m = "raise", !.v = [k |-> kind, v |-> v]]
RaiseErr(c, class) == Raise(c, "err", ErrV(class))

Unspec(c) == [c EXCEPT !.m = "done", !.v = [k |-> "unspec", v |-> NilV]]

RECURSIVE Dispatch(_, _), DoForms(_, _, _), DoFormsV(_, _, _, _), LetBody(_, _, _), ExpandLoop(_, _, _), AfterTryBody(_, _, _, _, _),
          BuiltinCall(_, _, _), ApplyFromBuiltin(_, _, _, _)

IsSpecial(a) == a.t = "list" /\ Len(a.xs) >= 1 /\ a.xs[1].t = "sym" /\ a.xs[1].s \in SpecialForms

\* builtins that re-enter the evaluator get their own frames; all others are atomic calls
Reentrant == {"apply", "map", "swap!", "eval", "update", "update-in", "future-call"}

\* apply a function VALUE from inside a builtin (types.Apply): a closure body is a NEW activation
ApplyFromBuiltin(c, fr, f, args) ==
  IF f.t = "fn" THEN
    LET p == f.xs[1] IN
      IF Len(args) < NFixed(p) THEN RaiseErr(c, "arity")
      ELSE IF ~IsVariadic(p) /\ Len(args) > NFixed(p) THEN Unspec(c)
      ELSE LET st1 == NewScope(c.st, f.i, BindParams(p, args)) IN
        Sub([c EXCEPT !.st = st1], fr, ListV(<<SymV("do")>> \o Tail(f.xs)), LastScope(st1))
  ELSE IF f.t = "bfn" /\ f.s \notin Reentrant THEN
    LET r == CallBuiltin(f.s, args, c.st) IN
      \* deliver the builtin's outcome to the waiting frame by pretending a sub-activation returned it
      IF r.k = "val" THEN [c EXCEPT !.m = "ret", !.v = r.v, !.st = r.st, !.k = Push(c, fr), !.d = <<>>]
      ELSE IF r.k \in {"thr", "err"} THEN [c EXCEPT !.m = "raise", !.v = [k |-> r.k, v |-> r.v], !.st = r.st, !.k = Push(c, fr), !.d = <<>>]
      ELSE Unspec(c)
  ELSE IF f.t = "bfn" THEN Unspec(c) ELSE RaiseErr(c, "notfn")

\* ---------------------------------------------------------------- loop top
\* after macro expansion is complete: dispatch on the (expanded) form
Dispatch(c, a) ==
  LET e == c.e n == Len(a.xs) IN
  IF a.t # "list" THEN
    (CASE a.t = "sym" -> LET l == Lookup(c.st.envs, e, a.s) IN IF l.found THEN Ret(c, l.v) ELSE RaiseErr(c, "undefined")
       [] a.t = "vec" -> IF a.xs = <<>> THEN Ret(c, a) ELSE Sub(c, Fr("args", [done |-> <<>>, rest |-> Tail(a.xs), e |-> e, kind |-> "vec", form |-> a]), a.xs[1], e)
       [] a.t = "map" -> LET ks == SetToSeq(DOMAIN a.m) IN
                           IF ks = <<>> THEN Ret(c, a)
                           ELSE IF Cardinality({x \in DOMAIN a.m : ~Constant(a.m[x])}) >= 2 THEN Unspec(c)
                           ELSE Sub(c, Fr("maplit", [m |-> a.m, key |-> ks[1], rest |-> Tail(ks), e |-> e]), a.m[ks[1]], e)
       [] OTHER -> Ret(c, a))
  ELSE IF a.xs = <<>> THEN Ret(c, a)
  ELSE IF IsSpecial(a) THEN
    LET h == a.xs[1].s IN
    CASE h = "def" -> IF n # 3 \/ a.xs[2].t # "sym" THEN Unspec(c)
                      ELSE Sub(c, Fr("def", [sym |-> a.xs[2].s, e |-> e]), a.xs[3], e)
      [] h = "let" -> IF n < 2 \/ ~IsSeq(a.xs[2]) \/ Len(a.xs[2].xs) % 2 = 1 \/ \E i \in OddIdx(a.xs[2].xs) : a.xs[2].xs[i].t # "sym"
                      THEN Unspec(c)
                      ELSE LET st1 == NewScope(c.st, e, EmptyMap) le == LastScope(st1) b == a.xs[2].xs c1 == [c EXCEPT !.st = st1] IN
                        IF b = <<>> THEN LetBody(c1, a, le)
                        ELSE Sub(c1, Fr("let", [b |-> b, i |-> 1, form |-> a, le |-> le]), b[2], le)
      [] h = "quote" -> IF n # 2 THEN Unspec(c) ELSE Ret(c, a.xs[2])
      [] h = "quasiquoteexpand" -> IF n # 2 \/ ~QQWellFormed(a.xs[2]) THEN Unspec(c) ELSE Ret(c, QQRewrite(a.xs[2]))
      [] h = "quasiquote" -> IF n # 2 \/ ~QQWellFormed(a.xs[2]) THEN Unspec(c) ELSE TailTo(c, QQRewrite(a.xs[2]), e)
      [] h = "defmacro" -> IF n # 3 \/ a.xs[2].t # "sym" THEN Unspec(c)
                           ELSE Sub(c, Fr("defmacro", [sym |-> a.xs[2].s, e |-> e]), a.xs[3], e)
      [] h = "macroexpand" -> IF n # 2 THEN Unspec(c) ELSE ExpandLoop(c, a.xs[2], "value")
      [] h = "do" -> DoForms(c, SubSeq(a.xs, 2, n), e)
      [] h = "if" -> IF n \notin {3, 4} THEN Unspec(c)
                     ELSE Sub(c, Fr("if", [then |-> a.xs[3], else |-> IF n = 4 THEN a.xs[4] ELSE Mk("none", 0, "", <<>>, NoMap), e |-> e]), a.xs[2], e)
      [] h = "fn" -> IF n < 2 \/ ~ParamsOk(a.xs[2]) THEN Unspec(c) ELSE Ret(c, FnV(e, a.xs[2], SubSeq(a.xs, 3, n)))
      \* (try) without any operand returns nil at once: the do helper is not even entered (no flag update pending)
      [] h = "try" -> LET tp == TryParts(a) IN
                        IF n = 1 THEN Ret(c, NilV)
                        ELSE IF ~tp.ok THEN Unspec(c)
                        ELSE IF tp.body = <<>> THEN AfterTryBody(HelperDone(c, Pend(c)), tp, e, "val", NilV)
                        ELSE Sub(c, Fr("trybody", [tp |-> tp, rest |-> Tail(tp.body), e |-> e, pend |-> Pend(c)]), tp.body[1], e)
  ELSE \* application: evaluate head and operands left to right
    Sub(c, Fr("args", [done |-> <<>>, rest |-> Tail(a.xs), e |-> e, kind |-> "apply", form |-> a]), a.xs[1], e)

\* (do f1 .. fn): all but the last are sub-evaluations, the last is in tail position
DoFormsV(c, forms, e, bottom) ==
  LET go(cc, a) == IF bottom THEN TailTo(cc, a, e) ELSE ContinueTo(cc, a, e) IN
  IF forms = <<>> THEN go(HelperDone(c, Pend(c)), NilV)          \* the helper returns nil, which is then evaluated as a form
  ELSE IF Len(forms) = 1 THEN go(HelperDone(c, Pend(c)), forms[1])
  ELSE Sub(c, Fr("donl", [rest |-> Tail(forms), e |-> e, pend |-> Pend(c), bottom |-> bottom]), forms[1], e)
DoForms(c, forms, e) == DoFormsV(c, forms, e, TRUE)
LetBody(c, form, le) == DoForms(c, SubSeq(form.xs, 3, Len(form.xs)), le)

\* the macro-expansion loop at the head of every iteration (and the macroexpand special form)
ExpandLoop(c, a, purpose) ==
  LET mc == MacroOf(a, c.e, c.st) IN
    IF ~mc.is THEN (IF purpose = "value" THEN Ret(c, a) ELSE Dispatch(c, a))
    ELSE ApplyFromBuiltin(c, Fr("macro", [purpose |-> purpose]), mc.f, Tail(a.xs))

\* the try body has finished with outcome (kind, v): handler, or out (the deferred finally is registered)
AfterTryBody(c, tp, e, kind, v) ==
  LET c1 == IF tp.hasF THEN [c EXCEPT !.d = Append(@, [t |-> "fin", fin |-> tp.fin, e |-> e])] ELSE c IN
  IF kind = "val" THEN Ret(c1, v)
  ELSE IF ~tp.hasC THEN Raise(c1, kind, v)
  ELSE LET st1 == NewScope(c1.st, e, (tp.csym.s :> v)) he == LastScope(st1) c2 == [c1 EXCEPT !.st = st1] IN
         DoFormsV(c2, tp.handler, he, FALSE)

LoopTop(c) ==
  LET c1 == [c EXCEPT !.tops = Append(@, <<c.a, Len(c.k) + 1>>), !.st.fuel = @ - 1] IN
    IF c.st.fuel = 0 THEN [c EXCEPT !.m = "done", !.v = [k |-> "div", v |-> NilV]]
    ELSE IF c.a.t # "list" THEN Dispatch(c1, c.a) ELSE ExpandLoop(c1, c.a, "dispatch")

\* ------------------------------------------------------- returning into a frame
\* the running activation is over (its defers have run): deliver outcome to the frame on top of k
Deliver(c) ==
  IF c.k = <<>> THEN [c EXCEPT !.m = "done", !.v = IF c.m = "ret" THEN [k |-> "val", v |-> c.v] ELSE c.v]
  ELSE LET fr == c.k[Len(c.k)]
           c0 == [c EXCEPT !.k = SubSeq(@, 1, Len(@) - 1), !.d = fr.d, !.e = fr.ce]     \* the suspended activation runs again
           ok == c.m = "ret"
           v == c.v
       IN
    CASE fr.t = "args" ->
           IF ~ok THEN Raise(c0, v.k, v.v)
           ELSE LET done == Append(fr.done, v) IN
             IF fr.rest # <<>> THEN Sub(c0, [fr EXCEPT !.done = done, !.rest = Tail(@)], fr.rest[1], fr.e)
             ELSE IF fr.kind = "vec" THEN Ret(c0, VecV(done))
             ELSE LET f == done[1] args == Tail(done) IN
               IF f.t = "fn" THEN
                 LET p == f.xs[1] IN
                   IF Len(args) < NFixed(p) THEN RaiseErr(c0, "arity")
                   ELSE IF ~IsVariadic(p) /\ Len(args) > NFixed(p) THEN Unspec(c0)
                   ELSE LET st1 == NewScope(c0.st, f.i, BindParams(p, args)) IN
                          TailTo([c0 EXCEPT !.st = st1], ListV(<<SymV("do")>> \o Tail(f.xs)), LastScope(st1))    \* TCO
               ELSE IF f.t = "bfn" THEN BuiltinCall(c0, f.s, args)
               ELSE RaiseErr(c0, "notfn")
      [] fr.t = "maplit" ->
           IF ~ok THEN Raise(c0, v.k, v.v)
           ELSE LET m2 == MapPut(fr.m, fr.key, v) IN
             IF fr.rest = <<>> THEN Ret(c0, MapV(m2))
             ELSE Sub(c0, [fr EXCEPT !.m = m2, !.key = fr.rest[1], !.rest = Tail(@)], m2[fr.rest[1]], fr.e)
      [] fr.t = "def" -> IF ~ok THEN Raise(c0, v.k, v.v) ELSE Ret([c0 EXCEPT !.st = Bind(@, fr.e, fr.sym, v)], v)
      [] fr.t = "defmacro" ->
           IF ~ok THEN Raise(c0, v.k, v.v)
           ELSE IF v.t # "fn" THEN Unspec(c0)
           ELSE LET mf == [v EXCEPT !.s = "macro"] IN Ret([c0 EXCEPT !.st = Bind(@, fr.e, fr.sym, mf)], mf)
      [] fr.t = "let" ->
           IF ~ok THEN Raise(c0, v.k, v.v)
           ELSE LET c1 == [c0 EXCEPT !.st = Bind(@, fr.le, fr.b[fr.i].s, v)] IN
             IF fr.i + 2 > Len(fr.b) THEN LetBody(c1, fr.form, fr.le)
             ELSE Sub(c1, [fr EXCEPT !.i = @ + 2], fr.b[fr.i + 3], fr.le)
      [] fr.t = "donl" ->
           IF ~ok THEN Raise(HelperDone(c0, fr.pend), v.k, v.v)
           ELSE IF Len(fr.rest) = 1
                THEN (IF fr.bottom THEN TailTo(HelperDone(c0, fr.pend), fr.rest[1], fr.e) ELSE ContinueTo(HelperDone(c0, fr.pend), fr.rest[1], fr.e))
           ELSE Sub(c0, [fr EXCEPT !.rest = Tail(@)], fr.rest[1], fr.e)
      [] fr.t = "ktail" -> IF ok THEN Ret(c0, v) ELSE Raise(c0, v.k, v.v)
      [] fr.t = "if" ->
           IF ~ok THEN Raise(c0, v.k, v.v)
           ELSE IF Truthy(v) THEN TailTo(c0, fr.then, fr.e)
           ELSE IF fr.else.t = "none" THEN Ret(c0, NilV) ELSE TailTo(c0, fr.else, fr.e)
      [] fr.t = "macro" ->
           IF ~ok THEN Raise(c0, v.k, v.v)
           ELSE ExpandLoop(c0, v, fr.purpose)          \* same loop iteration: no new loop top
      [] fr.t = "trybody" ->
           IF ~ok THEN AfterTryBody(HelperDone(c0, fr.pend), fr.tp, fr.e, v.k, v.v)
           ELSE IF fr.rest = <<>> THEN AfterTryBody(HelperDone(c0, fr.pend), fr.tp, fr.e, "val", v)
           ELSE Sub(c0, [fr EXCEPT !.rest = Tail(@)], fr.rest[1], fr.e)
      [] fr.t = "finally" ->                             \* one form of a deferred finally body finished; its outcome is discarded
           IF fr.rest # <<>> /\ ok THEN Sub(c0, [fr EXCEPT !.rest = Tail(@)], fr.rest[1], fr.e)
           ELSE [HelperDone(c0, fr.pend) EXCEPT !.m = fr.pm, !.v = fr.pv]    \* resume the pending outcome (then the remaining defers)
      [] fr.t = "bmap" ->
           IF ~ok THEN Raise(c0, v.k, v.v)
           ELSE LET done == Append(fr.done, v) IN
             IF fr.rest = <<>> THEN Ret(c0, ListV(done))
             ELSE ApplyFromBuiltin(c0, [fr EXCEPT !.done = done, !.rest = Tail(@)], fr.f, <<fr.rest[1]>>)
      [] fr.t = "bapply" -> IF ~ok THEN Raise(c0, v.k, v.v) ELSE Ret(c0, v)
      \* swap!: compare-and-set on the version read with the value; a lost attempt applies the function again
      [] fr.t = "bswap" -> IF ~ok THEN Raise(c0, v.k, v.v)
                           ELSE IF c0.st.avers[fr.atom] = fr.ver
                           THEN Ret([c0 EXCEPT !.st.atoms[fr.atom] = v, !.st.avers[fr.atom] = @ + 1], v)
                           ELSE ApplyFromBuiltin(c0, [fr EXCEPT !.ver = c0.st.avers[fr.atom]], fr.f,
                                                 <<c0.st.atoms[fr.atom]>> \o fr.extra)
      [] fr.t = "bupdate" ->
           IF ~ok THEN Raise(c0, v.k, v.v)
           ELSE IF fr.coll.t = "map" THEN Ret(c0, MapV(MapPut(fr.coll.m, fr.key, v)))
           ELSE Ret(c0, VecV([fr.coll.xs EXCEPT ![fr.idx] = v]))

\* a builtin is called by the running activation (which then returns its result)
BuiltinCall(c, name, a) ==
  LET n == Len(a) IN
  IF name \notin Reentrant THEN
    LET r == CallBuiltin(name, a, c.st) IN
      IF r.k = "val" THEN Ret([c EXCEPT !.st = r.st], r.v)
      ELSE IF r.k \in {"thr", "err"} THEN Raise([c EXCEPT !.st = r.st], r.k, r.v)
      ELSE Unspec(c)
  ELSE CASE name = "apply" -> IF n >= 2 /\ a[n].t = "nil" THEN Unspec(c) ELSE IF n < 2 \/ ~IsSeq(a[n]) THEN RaiseErr(c, "builtin")
                              ELSE ApplyFromBuiltin(c, Fr("bapply", <<>>), a[1], SubSeq(a, 2, n - 1) \o a[n].xs)
         [] name = "map" -> IF n = 2 /\ a[2].t = "nil" THEN Unspec(c) ELSE IF n # 2 \/ ~IsSeq(a[2]) THEN RaiseErr(c, "builtin")
                            ELSE IF a[2].xs = <<>> THEN Ret(c, ListV(<<>>))
                            ELSE ApplyFromBuiltin(c, Fr("bmap", [f |-> a[1], done |-> <<>>, rest |-> Tail(a[2].xs)]), a[1], <<a[2].xs[1]>>)
         [] name = "swap!" -> IF n < 2 THEN Unspec(c)
                              ELSE IF a[1].t # "atom" THEN RaiseErr(c, "builtin")
                              ELSE ApplyFromBuiltin(c, Fr("bswap", [atom |-> a[1].i, ver |-> c.st.avers[a[1].i], f |-> a[2],
                                                                   extra |-> SubSeq(a, 3, n)]),
                                                    a[2], <<c.st.atoms[a[1].i]>> \o SubSeq(a, 3, n))
         [] name = "eval" -> IF n # 1 THEN Unspec(c) ELSE Sub(c, Fr("bapply", <<>>), a[1], 1)
         [] name = "update" ->
              IF n # 3 THEN RaiseErr(c, "builtin")
              ELSE IF a[1].t = "map" /\ IsKeyable(a[2]) THEN
                LET key == KeyOf(a[2]) IN
                  ApplyFromBuiltin(c, Fr("bupdate", [coll |-> a[1], key |-> key, idx |-> 0]), a[3],
                                   <<IF key \in DOMAIN a[1].m THEN a[1].m[key] ELSE NilV>>)
              ELSE IF a[1].t = "vec" /\ IsInt(a[2]) /\ a[2].i >= 0 /\ a[2].i < Len(a[1].xs) THEN
                ApplyFromBuiltin(c, Fr("bupdate", [coll |-> a[1], key |-> "", idx |-> a[2].i + 1]), a[3], <<a[1].xs[a[2].i + 1]>>)
              ELSE Unspec(c)
         [] OTHER -> Unspec(c)

\* the running activation returns / raises: first its deferred finally bodies (last registered first)
Exit(c) ==
  IF c.d = <<>> THEN Deliver(c)
  ELSE LET df == c.d[Len(c.d)]
           c1 == [c EXCEPT !.d = SubSeq(@, 1, Len(@) - 1)] IN
    IF df.t = "nextreset" THEN [c1 EXCEPT !.dbg.skip = FALSE]
    ELSE IF df.t = "o2reset" THEN [c1 EXCEPT !.dbg.skip = FALSE, !.dbg.o2 = FALSE]
    ELSE IF df.fin = <<>> THEN HelperDone(c1, Pend(c1))
    ELSE \* the finally forms run as sub-evaluations of this (still live) activation; outcome pending
      Sub(c1, Fr("finally", [rest |-> Tail(df.fin), e |-> df.e, pm |-> c.m, pv |-> c.v, pend |-> Pend(c1)]), df.fin[1], df.e)

\* entry of an activation: the stepper section of EVAL
Enter(c) ==
  IF ~c.dbg.on THEN [c EXCEPT !.m = "top"]
  ELSE LET consult == ~c.dbg.skip
           cmd == IF consult THEN c.dbg.script[(c.dbg.pos % Len(c.dbg.script)) + 1] ELSE "none"
           c1 == IF consult
                 THEN [c EXCEPT !.dbg.pos = @ + 1,
                                !.dbg.log = Append(@, <<c.a, Len(c.k) + 1, c.dbg.o1, c.dbg.o2, cmd>>),
                                !.dbg.skip = IF cmd \in {"next", "out"} THEN TRUE ELSE IF cmd = "in" THEN FALSE ELSE @,
                                !.dbg.o1 = IF cmd = "out" THEN TRUE ELSE IF cmd = "in" THEN FALSE ELSE @,
                                !.d = IF cmd = "next" THEN Append(@, [t |-> "nextreset"]) ELSE @]
                 ELSE c
           c2 == IF c1.dbg.o2 THEN [c1 EXCEPT !.d = Append(@, [t |-> "o2reset"])] ELSE c1
       IN [c2 EXCEPT !.m = "top"]

Step(c) == CASE c.m = "enter" -> Enter(c)
             [] c.m = "top" -> LoopTop(c)
             [] c.m \in {"ret", "raise"} -> Exit(c)
             [] OTHER -> c

RECURSIVE RunCfg(_)
RunCfg(c) == IF c.m = "done" THEN c ELSE RunCfg(Step(c))

\* run a program (top-level forms in order) from state st0; returns the final configuration of the last form
RECURSIVE RunForms(_, _, _, _)
RunForms(forms, i, st, tops) ==
  LET c == RunCfg(Cfg("enter", forms[i], 1, NilV, <<>>, <<>>, st, tops)) IN
    IF i = Len(forms) \/ c.v.k # "val" THEN c ELSE RunForms(forms, i + 1, c.st, c.tops)

\* the same with a stepper installed that answers with the cyclic command script
RECURSIVE RunFormsStepped(_, _, _, _)
RunFormsStepped(forms, i, st, dbg) ==
  LET c == RunCfg([Cfg("enter", forms[i], 1, NilV, <<>>, <<>>, st, <<>>) EXCEPT !.dbg = dbg]) IN
    IF i = Len(forms) \/ c.v.k # "val" THEN c ELSE RunFormsStepped(forms, i + 1, c.st, c.dbg)
Dbg(script) == [NoDbg EXCEPT !.on = TRUE, !.script = script]

MachineOutcome(c) == [k |-> c.v.k,
                      v |-> IF c.v.k \in {"val", "thr", "err"} THEN Abstract(c.v.v, c.st) ELSE NilV,
                      eff |-> [i \in 1..Len(c.st.eff) |-> Abstract(c.st.eff[i], c.st)]]
=============================================================================
