------------------------------- MODULE GenC17 -------------------------------
(***************************************************************************)
(* C17: runtime errors point at the failing form.                          *)
(* Position model: a program text is a sequence of BLOCKS (comment line,   *)
(* blank line, one-line form, multi-line form, definition holding a        *)
(* multi-line raw string) around exactly one planted FAULT (undefined      *)
(* symbol, throw, failing builtin, failed assert) wrapped in one of the    *)
(* language's nesting constructs, directly or in the body of a function /  *)
(* closure defined in an EARLIER top-level form and called directly,       *)
(* through map or through apply.  The model renders the text and computes  *)
(*   topBegin, topEnd : rows of the smallest top-level form that textually *)
(*                      contains the faulty expression                     *)
(*   faultLine        : row on which the faulty expression starts          *)
(* by line arithmetic (counting newlines), and checks its own arithmetic   *)
(* against Text.tla (the rendered text reads; the form count is right).    *)
(***************************************************************************)
EXTENDS Text, Json

CONSTANT MaxPre    \* number of blocks before the faulty block (0..MaxPre)

Blocks == <<"; a comment with ( and \"\n", "\n", "(def a1 1)\n", "(def a2\n  (+ 1\n     2))\n",
            "(def a3 ¬line1\nline2 (\nline3¬)\n", "(def a4 \"s\") ; trailing comment\n\n",
            \* the name of the undefined symbol occurs (as data) in an earlier form
            "(def a5 '(undefined-sym\n  q))\n">>
\* every text starts with the definition of a two-parameter function (for the arity fault)
Prelude == "(def ff2 (fn [p q]\n  (list p q)))\n(defmacro mm2 (fn [p q]\n  p))\n" \o
           \* values that are FORMS (a quoted symbol, a quoted list) written here and thrown elsewhere
           "(def held-sym 'resource-missing)\n(def held-list\n  '(bad\n    thing))\n" \o
           \* macros generating a let whose binding vector comes from a quasiquoted vector
           "(defmacro mlet (fn [n v]\n  `(let [~n ~v]\n    ~n)))\n(defmacro mlet1 (fn [n]\n  `(let [~n]\n    1)))\n"
Faults == <<[n |-> "undefined", t |-> "undefined-sym"], [n |-> "throw", t |-> "(throw \"boom\")"],
            [n |-> "builtin", t |-> "(nth [1] 5)"], [n |-> "assert", t |-> "(assert false \"failed\")"],
            [n |-> "thread-builtin", t |-> "(-> [1] (nth 5))"], [n |-> "thread-last-throw", t |-> "(->> \"boom\" (throw))"],
            \* the failing expression as the LAST operand of a multi-operand library macro / an INNER step of ->
            [n |-> "and-last-builtin", t |-> "(and 1 2 (nth [1] 5))"], [n |-> "or-last-throw", t |-> "(or false nil (throw \"boom\"))"],
            [n |-> "thread-inner-builtin", t |-> "(-> [1] (nth 7) (or 0))"],
            \* a function defined in ANOTHER top-level form called with too few arguments: the faulty expression is the call
            [n |-> "arity", t |-> "(ff2 1)"],
            \* ... reached through a builtin, and a macro called with too few operands: the faulty expression is that call
            [n |-> "arity-map", t |-> "(map ff2 [1])"], [n |-> "arity-apply", t |-> "(apply ff2 [1])"],
            [n |-> "arity-macro", t |-> "(mm2 1)"],
            [n |-> "throw-held-symbol", t |-> "(throw held-sym)"], [n |-> "throw-held-list", t |-> "(throw held-list)"],
            [n |-> "assert-held-list", t |-> "(assert false held-list)"],
            [n |-> "generated-let-bad-name", t |-> "(mlet 5 1)"], [n |-> "generated-let-odd", t |-> "(mlet1 q)"]>>

\* wrappers: d = definition form (earlier top-level form) or "", b/a = text before/after the fault,
\* where = "call" if the fault sits in the calling form, "def" if it sits in the definition form
Wrappers == <<
  [n |-> "direct",  d |-> "", b |-> "", a |-> "\n", where |-> "call"],
  [n |-> "let",     d |-> "", b |-> "(let [q 1]\n  ", a |-> ")\n", where |-> "call"],
  [n |-> "if",      d |-> "", b |-> "(if true\n  ", a |-> "\n  2)\n", where |-> "call"],
  [n |-> "do",      d |-> "", b |-> "(do\n  1\n  ", a |-> "\n  3)\n", where |-> "call"],
  [n |-> "vector",  d |-> "", b |-> "[1\n ", a |-> "]\n", where |-> "call"],
  [n |-> "map",     d |-> "", b |-> "{:k\n ", a |-> "}\n", where |-> "call"],
  [n |-> "call-arg", d |-> "", b |-> "(list 1\n      ", a |-> "\n      3)\n", where |-> "call"],
  [n |-> "cond",    d |-> "", b |-> "(cond false 1\n      true ", a |-> ")\n", where |-> "call"],
  [n |-> "thread",  d |-> "", b |-> "(-> 1\n    (list ", a |-> "))\n", where |-> "call"],
  [n |-> "and",     d |-> "", b |-> "(and 1\n     ", a |-> ")\n", where |-> "call"],
  [n |-> "or",      d |-> "", b |-> "(or false\n    ", a |-> ")\n", where |-> "call"],
  [n |-> "try-finally", d |-> "", b |-> "(try\n  ", a |-> "\n  (finally 1))\n", where |-> "call"],
  [n |-> "fn-call", d |-> "(def ff (fn [p]\n  (do p\n    _F)))\n", b |-> "(ff 1)", a |-> "\n", where |-> "def"],
  [n |-> "via-map", d |-> "(def ff (fn [p]\n  (do p\n    _F)))\n", b |-> "(map ff\n  [1])", a |-> "\n", where |-> "def"],
  [n |-> "via-apply", d |-> "(def ff (fn [p]\n  (do p\n    _F)))\n", b |-> "(apply ff\n  [1])", a |-> "\n", where |-> "def"],
  [n |-> "closure", d |-> "(def mk (fn []\n  (fn [p]\n    (list p\n      _F))))\n", b |-> "((mk) 1)", a |-> "\n", where |-> "def"],
  [n |-> "via-let-binding", d |-> "(def ff (fn [p]\n  (do p\n    _F)))\n", b |-> "(let [q 1\n      r (ff q)]\n  r)", a |-> "\n", where |-> "def"],
  [n |-> "via-if-cond", d |-> "(def ff (fn [p]\n  (do p\n    _F)))\n", b |-> "(if (ff 1)\n  1\n  2)", a |-> "\n", where |-> "def"],
  [n |-> "via-def", d |-> "(def ff (fn [p]\n  (do p\n    _F)))\n", b |-> "(def r\n  (ff 1))", a |-> "\n", where |-> "def"],
  [n |-> "via-arg", d |-> "(def ff (fn [p]\n  (do p\n    _F)))\n", b |-> "(list 1\n  (ff 1))", a |-> "\n", where |-> "def"],
  [n |-> "via-try", d |-> "(def ff (fn [p]\n  (do p\n    _F)))\n", b |-> "(try\n  (ff 1)\n  (finally 2))", a |-> "\n", where |-> "def"],
  [n |-> "via-swap", d |-> "(def ff (fn [p]\n  (do p\n    _F)))\n", b |-> "(swap! (atom 1)\n  ff)", a |-> "\n", where |-> "def"],
  [n |-> "via-update", d |-> "(def ff (fn [p]\n  (do p\n    _F)))\n", b |-> "(update {:a 1}\n  :a ff)", a |-> "\n", where |-> "def"],
  [n |-> "via-update-in", d |-> "(def ff (fn [p]\n  (do p\n    _F)))\n", b |-> "(update-in {:a {:b 1}}\n  [:a :b] ff)", a |-> "\n", where |-> "def"],
  [n |-> "via-update-in-vec", d |-> "(def ff (fn [p]\n  (do p\n    _F)))\n", b |-> "(update-in [[1] 2]\n  [0 0] ff)", a |-> "\n", where |-> "def"],
  [n |-> "via-tail", d |-> "(def ff (fn [p]\n  (if p\n    (ff nil)\n    _F)))\n", b |-> "(do 1\n  (ff 1))", a |-> "\n", where |-> "def"],
  [n |-> "via-two-fns", d |-> "(def ff (fn [p]\n  (do p\n    _F)))\n", b |-> "(def gg (fn []\n  (ff 1)))\n(gg)", a |-> "\n", where |-> "def"],
  [n |-> "macro-arg", d |-> "(defmacro twice (fn [e]\n  `(do ~e ~e)))\n", b |-> "(twice\n  ", a |-> ")\n", where |-> "call"],
  \* macros whose ONLY parameter is a rest parameter and whose expansion IS (or holds) that rest list
  [n |-> "macro-rest", d |-> "(defmacro callit (fn [& call]\n  call))\n", b |-> "(callit do 1\n  ", a |-> ")\n", where |-> "call"],
  [n |-> "macro-rest-in-do", d |-> "(defmacro checked (fn [& call]\n  (list 'do call)))\n", b |-> "(checked list 1\n  ", a |-> "\n  3)\n", where |-> "call"],
  \* ... the faulty call itself is BUILT from the operands: (callit nth [1] 5) expands to the call (nth [1] 5)
  [n |-> "macro-rest-spliced", d |-> "(defmacro callit (fn [& call]\n  call))\n", b |-> "(callit\n  ", a |-> "\n", where |-> "call"],
  [n |-> "macro-rest-spliced-in-let", d |-> "(defmacro callit (fn [& call]\n  call))\n", b |-> "(let [q 1]\n  (callit ", a |-> ")\n", where |-> "call"],
  [n |-> "macro-rest-in-fn", d |-> "(defmacro callit (fn [& call]\n  call))\n(def ff (fn [p]\n  (callit do p\n    _F)))\n", b |-> "(ff 1)", a |-> "\n", where |-> "def"] >>

Spliced == {"macro-rest-spliced", "macro-rest-spliced-in-let"}
\* the fault's own elements become the operands of the wrapper's macro call (its closing parenthesis closes that call)
Splice(F) == IF SubSeq(F, 1, 1) = "(" THEN SubSeq(F, 2, Len(F)) ELSE F \o ")"
RECURSIVE NL(_, _)
NL(s, i) == IF i > Len(s) THEN 0 ELSE (IF Ch(s, i) = "\n" THEN 1 ELSE 0) + NL(s, i + 1)
Lines(s) == NL(s, 1)

RECURSIVE FindHole(_, _)
FindHole(s, i) == IF i + 1 > Len(s) THEN 0 ELSE IF SubSeq(s, i, i + 1) = "_F" THEN i ELSE FindHole(s, i + 1)
FillHole(s, f) == LET k == FindHole(s, 1) IN IF k = 0 THEN s ELSE SubSeq(s, 1, k - 1) \o f \o SubSeq(s, k + 2, Len(s))

RECURSIVE Pow(_, _), BlockSeq(_, _)
Pow(b, e) == IF e = 0 THEN 1 ELSE b * Pow(b, e - 1)
NBk == Len(Blocks)
BlockSeq(n, k) == IF n = 0 THEN <<>> ELSE <<Blocks[(k % NBk) + 1]>> \o BlockSeq(n - 1, k \div NBk)

VARIABLES npre, pre, gap, w, f, post, ph
vars == <<npre, pre, gap, w, f, post, ph>>
Init == /\ ph = 0 /\ npre \in 0..MaxPre /\ pre \in 0..(Pow(NBk, npre) - 1)
        /\ gap \in 0..NBk        \* block between the definition form and the calling form (0 = none)
        /\ w \in 1..Len(Wrappers) /\ f \in 1..Len(Faults) /\ post \in 0..1
        /\ (Wrappers[w].d = "" => gap = 0)

Next == /\ ph = 0 /\ ph' = 1 /\ UNCHANGED <<npre, pre, gap, w, f, post>>
        /\ LET W == Wrappers[w]
               F == IF W.n \in Spliced THEN Splice(Faults[f].t) ELSE Faults[f].t
               preText == Prelude \o Join(BlockSeq(npre, pre), "")
               defText == FillHole(W.d, F)
               gapText == IF gap = 0 THEN "" ELSE Blocks[gap]
               callText == W.b \o (IF W.where = "call" THEN F ELSE "") \o W.a
               postText == IF post = 1 THEN "(def z 1)\n" ELSE ""
               text == preText \o defText \o gapText \o callText \o postText
               defBegin == Lines(preText) + 1
               callBegin == Lines(preText) + Lines(defText) + Lines(gapText) + 1
               callEnd == callBegin + Lines(W.b \o (IF W.where = "call" THEN F ELSE "") \o W.a) - 1
               \* rows of the top-level form containing the fault, and the fault's own row
               topBegin == IF W.where = "call" THEN callBegin ELSE defBegin
               topEnd == IF W.where = "call" THEN (IF Lines(callText) = 0 THEN callBegin ELSE callEnd)
                         ELSE defBegin + Lines(defText) - 1
               faultLine == IF W.where = "call" THEN callBegin + Lines(W.b)
                            ELSE defBegin + Lines(SubSeq(W.d, 1, FindHole(W.d, 1)))
               lx == Tokenize(text)
               c == [kind |-> "pos", tag |-> W.n, fault |-> Faults[f].n, text |-> text, module |-> "posmod",
                     top_begin |-> topBegin, top_end |-> topEnd, fault_line |-> faultLine,
                     call_begin |-> callBegin, src |-> W.n \o "/" \o Faults[f].n]
           IN /\ Assert(lx.st = "ok", <<"rendered text does not tokenize", text>>)
              /\ PrintT("CASE " \o ToJson(c))
Spec == Init /\ [][Next]_vars
=============================================================================
