------------------------------- MODULE TraceDef -------------------------------
(***************************************************************************)
(* Direction B for C01 / C03 / C12: programs generated and EXECUTED by the *)
(* driver on the real interpreter (random typed programs, depth up to ~8,  *)
(* far larger than the exhaustive bound) are recorded as (program,         *)
(* observed outcome, observed effect log); this specification explains     *)
(* each record with the definition layer: the observation must be the      *)
(* outcome Def computes (or Def abstains).  The program is data of the     *)
(* trace; the specification is the explainer.  One TLC state per record,   *)
(* checked in parallel.                                                    *)
(***************************************************************************)
EXTENDS Def, Json, IOUtils

ASSUME InitRegisters
ASSUME TLCSet(5, Norm(ndJsonDeserialize(IOEnv.VERIF_TRACE)))
Trace == TLCGet(5)

ExactErr == {"raise", "boom"}
RECURSIVE AgreeV(_, _)
\* m = the definition's (abstract) value, o = the observed one
AgreeV(m, o) ==
  IF m.t = "err" /\ m.s \notin ExactErr THEN TRUE          \* an opaque host error object
  ELSE IF m.t # o.t THEN FALSE
  ELSE IF m.t \in {"list", "vec", "atom"} THEN Len(m.xs) = Len(o.xs) /\ \A k \in 1..Len(m.xs) : AgreeV(m.xs[k], o.xs[k])
  ELSE IF m.t = "map" THEN DOMAIN m.m = DOMAIN o.m /\ \A k \in DOMAIN m.m : AgreeV(m.m[k], o.m[k])
  ELSE IF m.t = "set" THEN DOMAIN m.m = DOMAIN o.m
  ELSE IF m.t \in {"bool", "int"} THEN m.i = o.i
  ELSE IF m.t \in {"str", "kw", "sym", "fn", "err"} THEN m.s = o.s
  ELSE TRUE

Why(m, obs) ==
  IF m.k = "err" /\ m.v.s \notin ExactErr /\ obs.k \in {"err", "thr"} THEN
       (IF Len(m.eff) = Len(obs.eff) /\ \A k \in 1..Len(m.eff) : AgreeV(m.eff[k], obs.eff[k]) THEN "" ELSE "effects")
  ELSE IF m.k # obs.k THEN "kind: definition " \o m.k \o ", observed " \o obs.k
  ELSE IF ~AgreeV(m.v, obs.v) THEN "value"
  ELSE IF ~(Len(m.eff) = Len(obs.eff) /\ \A k \in 1..Len(m.eff) : AgreeV(m.eff[k], obs.eff[k])) THEN "effects"
  ELSE ""

VARIABLES l, ph
Init == ph = 0 /\ l \in 1..Len(Trace)
Next == /\ ph = 0 /\ ph' = 1 /\ l' = l
        /\ LET rec == Trace[l]
               r == Run(rec.forms)
               o == Outcome(r, {})
           IN IF r.k \in {"unspec", "div"} THEN PrintT("ABSTAIN " \o ToString(l))
              ELSE LET w == Why(o, rec.obs) IN
                IF w = "" THEN TRUE ELSE PrintT("REJECT " \o ToString(l) \o " " \o w)
Spec == Init /\ [][Next]_<<l, ph>>
=============================================================================
