------------------------------- MODULE GenC15 -------------------------------
(***************************************************************************)
(* C15: placeholders are substituted as data and survive the preamble.     *)
(*                                                                         *)
(* Definition:  Transport(src, m) ==                                       *)
(*    ReadWithPreamble(AddPreamble(src, m)) = ReadWith(src, m)             *)
(* i.e. reading the transported text gives the AST of the source with      *)
(* every placeholder TOKEN replaced by its value (Text.ReadWith).          *)
(*                                                                         *)
(* Implementation-shaped layer (as mal.go does it): AddPreambleImpl writes *)
(* one ';; $name value' LINE per entry, a blank line, the source;          *)
(* ReadWithPreambleImpl splits at newlines, trims, stops at the first      *)
(* blank or non-preamble line, reads each value with the reader (an error  *)
(* of that read becomes nil).  TLC evaluates both on every case and flags  *)
(* the cases on which the DESIGN loses the value (`danger`): values whose  *)
(* printed form spans several lines.                                       *)
(***************************************************************************)
EXTENDS Text, Json

Sources == <<"$A", "(list $A $B)", "'($A)", "[$A {:k $A}]", "(str \"$A\" $A)", "; $A\n$A", "(quote ($A-B $A_B $A))",
             "$UNKNOWN", "\n$A", ";; $A 5\n$A", "(f $A $A)", "(do $A) ; $B", "[$A\n$B]", ";; $B 7\n\n$B", "$A ;; $A 1",
             "\"a\n$A\"", "(quote $1)", "{:k $A-B}", "¬$A¬", "($B $A)", "  $A", ";; comment\n$A", "#{$A}", "(fn [] $A)",
             \* multi-line raw strings of the source holding comment-looking and preamble-looking lines
             "(list $MODULE $A)",
             "[$A ¬a\n; b $A\n;; $A 1\nc¬]", "(str ¬\n   ; y\nz¬ $A)", "¬x\n\n;; $B 2\n¬ $A",
             \* CR LF line ends: between forms, after comments, inside multi-line raw strings and strings
             "(list $A\r\n $B) ; c\r\n", "[$A ¬a\r\nb \r\n\r\nc¬]", "; c\r\n(str $A \"x\r\ny\")\r\n", "¬\r\n¬ $A">>

Values == <<"1", "nil", "-5", "\"s\"", "\"a\\\"b\"", "\"a\\\\b\"", "\"a;b\"", "\"(a)\"", "\"a\\nb\"", "\"{\\\"a\\\":1}\"",
            "\"{\\\"a\\\":\\n1}\"", "\"{\\\"a\\\":1}\\n\\n;; $B 1\\n\\n{\\\"b\\\":2}\"", "\"x\\n\\n;; $B 1\"", "sym", "$B", ":k",
            "(1 \"a\\nb\" [c])", "{:a \"{\\\"x\\\":\\n2}\"}", "[]", "\"$B\"", "\";; $B 9\"", "\"¬\"", "\"{\\\"¬\\\"}\"", "(quote x)",
            "\"\"", "\" \"", "true", "#{\"a\"}", "\"{\\\"a\\\":1}\\n\"", "\"\\n\"",
            "\"a\tb\"", "\"a\rb\"", "\"é ʞ\"", "[\"x\ty\" {:k \"\r\"}]",
            \* hash-maps whose KEYS need the printer's escapes
            "{\"a\\\"b\" 1}", "{\"x\\n;; $B 9 ;\" 1}", "{\"{\\\"k\\\":1}\" 2}", "[{\"a;b\" {\"c\\\\d\" 3}}]",
            \* percent signs (format verbs to anything that prints with a format string)
            "\"100%\"", "\"%d items %s\"", "\"10%%\"", "[\"%v\" {\"%k\" \"%!\"}]">>

Names == <<"$A", "$B", "$A-B", "$1", "$A_B", "$MODULE">>

Srcs == Sources
\* "$B" stands for the SYMBOL named $B (constructible from Go only)
Vals == [k \in 1..Len(Values) |->
           IF Values[k] = "$B" THEN SymV("$B")
           ELSE LET r == Read(Values[k]) IN IF r.st = "ok" THEN r.v ELSE Assert(FALSE, <<"bad value", k, r>>)]
ASSUME TLCSet(3, Norm(Vals))

\* ---------------------------------------------------------- implementation shape
RECURSIVE SplitLines(_, _, _)
SplitLines(s, i, cur) == IF i > Len(s) THEN <<cur>>
                         ELSE IF Ch(s, i) = "\n" THEN <<cur>> \o SplitLines(s, i + 1, "")
                         ELSE SplitLines(s, i + 1, cur \o Ch(s, i))
RECURSIVE TrimL(_), TrimR(_)
TrimL(s) == IF Len(s) > 0 /\ Ch(s, 1) \in {" ", "\t", "\r"} THEN TrimL(SubSeq(s, 2, Len(s))) ELSE s
TrimR(s) == IF Len(s) > 0 /\ Ch(s, Len(s)) \in {" ", "\t", "\r"} THEN TrimR(SubSeq(s, 1, Len(s) - 1)) ELSE s
Trim(s) == TrimR(TrimL(s))
NameChar(c) == c \in Letter \cup Digit \cup {"-", "_"}
RECURSIVE NameEnd(_, _)
NameEnd(s, i) == IF i <= Len(s) /\ NameChar(Ch(s, i)) THEN NameEnd(s, i + 1) ELSE i

AddPreambleImpl(src, names, vals) ==
  Join([k \in 1..Len(names) |-> ";; " \o names[k] \o " " \o PrStr(vals[k]) \o "\n"], "") \o "\n" \o src

RECURSIVE RWP(_, _, _)
\* lines from index i on; m = placeholder map collected so far
RWP(lines, i, m) ==
  IF i > Len(lines) THEN ReadWith("", Ph(m))
  ELSE LET line == Trim(lines[i])
           rest == Join(SubSeq(lines, i + 1, Len(lines)), "\n")
       IN IF line = "" THEN ReadWith(rest, Ph(m))
          ELSE IF ~(Len(line) >= 4 /\ SubSeq(line, 1, 4) = ";; $") THEN ReadWith(line \o "\n" \o rest, Ph(m))
          ELSE LET e == NameEnd(line, 5) IN
            IF e = 5 \/ e > Len(line) \/ Ch(line, e) \notin {" ", "\t"} \/ e + 1 > Len(line)
            THEN RR("malformed", NilV, 0, "invalid preamble format")
            ELSE LET name == SubSeq(line, 4, e - 1)
                     r == Read(SubSeq(line, e + 1, Len(line)))
                 IN RWP(lines, i + 1, MapPut(m, name, IF r.st = "ok" THEN r.v ELSE NilV))
ReadWithPreambleImpl(text) == RWP(SplitLines(text, 1, ""), 1, EmptyMap)

\* ------------------------------------------------------------------- generator
CONSTANT TwoNames   \* TRUE: also assign a second name

VARIABLES s, n1, v1, n2, v2, ph
vars == <<s, n1, v1, n2, v2, ph>>
Init == /\ ph = 0 /\ s \in 1..Len(Srcs)
        /\ \/ /\ n1 \in 1..Len(Names) /\ v1 \in 1..Len(Values)
              /\ IF TwoNames THEN n2 \in 1..Len(Names) /\ n2 # n1 /\ v2 \in 1..Len(Values) ELSE n2 = 0 /\ v2 = 0
           \/ n1 = 0 /\ v1 = 0 /\ n2 = 0 /\ v2 = 0      \* the EMPTY assignment

Same(a, b) == a.st = b.st /\ (a.st = "ok" => StructEq(a.v, b.v))

Next == /\ ph = 0 /\ ph' = 1 /\ UNCHANGED <<s, n1, v1, n2, v2>>
        /\ LET V == TLCGet(3)
               names == IF n1 = 0 THEN <<>> ELSE IF n2 = 0 THEN <<Names[n1]>> ELSE <<Names[n1], Names[n2]>>
               vals == IF n1 = 0 THEN <<>> ELSE IF n2 = 0 THEN <<V[v1]>> ELSE <<V[v1], V[v2]>>
               m == [x \in {names[k] : k \in 1..Len(names)} |-> vals[CHOOSE k \in 1..Len(names) : names[k] = x]]
               def == ReadWith(Srcs[s], Ph(m))
               impl == ReadWithPreambleImpl(AddPreambleImpl(Srcs[s], names, vals))
               c == [kind |-> "preamble", tag |-> "src" \o ToString(s), src |-> Srcs[s], m |-> m,
                     cls |-> def.st, v |-> def.v, danger |-> IF Same(def, impl) \/ def.st = "unspec" THEN 0 ELSE 1]
           IN PrintT("CASE " \o ToJson(c))
Spec == Init /\ [][Next]_vars
=============================================================================
