------------------------------- MODULE TraceEq -------------------------------
(***************************************************************************)
(* Direction B for C14: the Boolean matrix (= a b) OBSERVED on the real    *)
(* code for all ordered pairs of the pool is validated here: it must be an *)
(* equivalence relation.  The matrix is the recorded trace (row-major, one *)
(* row per ordered pair); TLC walks it, one state per row, and checks the  *)
(* three laws as invariants at every row.                                  *)
(***************************************************************************)
EXTENDS Integers, Sequences, TLC, Json, IOUtils

Rows == ndJsonDeserialize(IOEnv.VERIF_TRACE)   \* row (i-1)*N + j : [i, j, eq (0/1)]
ASSUME TLCSet(5, Rows)
R == TLCGet(5)
N == CHOOSE n \in 1..300 : n * n = Len(R)
ASSUME \A k \in 1..Len(R) : R[k].i = ((k - 1) \div N) + 1 /\ R[k].j = ((k - 1) % N) + 1

M(a, b) == R[(a - 1) * N + b].eq = 1

VARIABLES l
Init == l = 1
Next == l <= Len(R) /\ l' = l + 1
Cur == R[l]
Reflexive == l <= Len(R) => (Cur.i = Cur.j => Cur.eq = 1)
Symmetric == l <= Len(R) => ((Cur.eq = 1) = M(Cur.j, Cur.i))
Transitive == l <= Len(R) => (Cur.eq = 1 => \A k \in 1..N : M(Cur.j, k) => M(Cur.i, k))
Accepted == l = Len(R) + 1
Spec == Init /\ [][Next]_l
=============================================================================
