------------------------------- MODULE GenC06 -------------------------------
(***************************************************************************)
(* C06 generator (value direction): data values whose strings range over   *)
(* EVERY string of length <= MaxLen over an alphabet holding every         *)
(* character the printer/reader treat specially (quote, backslash, the     *)
(* letter n after a backslash, newline, tab, the raw-string quote, the     *)
(* keyword marker U+029E, braces that switch the printer to raw form,      *)
(* space, semicolon), each string placed at top level, inside a list, as   *)
(* map key, as map value and as set member; plus keywords/symbols over the *)
(* token alphabet, integers and nested collections.                        *)
(* Checked on the model for every value: Read(PrStr(v)) = v (RoundTrip).   *)
(***************************************************************************)
EXTENDS Text, Json

CONSTANTS MaxLen

A == <<"a", "\"", "\\", "n", "\n", "\t", "¬", "ʞ", "{", "}", " ", ";">>
NA == Len(A)
Seeds == <<"�", "a�b", "", " ", "﻿z", " x", "é", "😀", "{\"", "{\"}", "{\"a\":1}", "{\"¬}", "{\"a\\n\":\"¬¬\"}", "{\"\n}", "¬", "¬¬", "\\\\n", "\\n", "{\"}\n", "a{\"}">>

Others == <<":a", ":a-b", ":a1", ":+", ":", "a", "a-b", "a1", "+", "->", "*x*", "nil?", "-", "-a", "<=", "&", "0", "1", "-1",
            \* symbols that differ from nil / true / false by letter case only
            "True", "NIL", "False", "Nil", "tRUE", "(True NIL)", "{:k False}",
            "12345", "-30000", "nil", "true", "false", "()", "[]", "{}", "#{}", "(1 2)", "[1 [2 3]]", "(a (b) [c])",
            "{:a 1}", "{\"k\" {:b nil}}", "{:a [1 {:b 2}] \"s\" (3)}", "#{:a}", "#{\"a\" :a}", "[#{:k} {:k #{\"v\"}}]",
            "(quote a)", "(nil true false)", "[\"\" \"a\" :a a]",
            \* integers beyond 32 bits (carried as text by the specification)
            "1000000000", "-1000000000", "9007199254740993", "-170000000000000001", "[4294967296 {:n 999999999999999999}]">>

RECURSIVE Pow(_, _), TextOf(_, _)
Pow(b, e) == IF e = 0 THEN 1 ELSE b * Pow(b, e - 1)
TextOf(len, k) == IF len = 0 THEN "" ELSE A[(k % NA) + 1] \o TextOf(len - 1, k \div NA)

Place(s, w) ==
  CASE w = 1 -> StrV(s)
    [] w = 2 -> ListV(<<StrV(s), IntV(1)>>)
    [] w = 3 -> MapV((s :> IntV(1)))
    [] w = 4 -> MapV(("ʞk" :> VecV(<<StrV(s)>>)))
    [] w = 5 -> SetV((s :> NilV))

VARIABLES mode, len, idx, w, ph
vars == <<mode, len, idx, w, ph>>
Init == /\ ph = 0
        /\ \/ mode = "str" /\ len \in 0..MaxLen /\ idx \in 0..(Pow(NA, len) - 1) /\ w \in 1..5
           \/ mode = "seed" /\ len = 0 /\ idx \in 1..Len(Seeds) /\ w \in 1..5
           \/ mode = "other" /\ len = 0 /\ idx \in 1..Len(Others) /\ w = 1

Next == /\ ph = 0 /\ ph' = 1 /\ UNCHANGED <<mode, len, idx, w>>
        /\ LET v == CASE mode = "str" -> Place(TextOf(len, idx), w)
                      [] mode = "seed" -> Place(Seeds[idx], w)
                      [] mode = "other" -> Parse(Others[idx])
               p == PrStr(v)
               r == Read(p)
               \* a map key / set member that begins with U+029E IS a keyword in this value universe
               \* (Values.tla keeps the implementation's key encoding), so the string s is not what
               \* such a case places: skip it there
               skip == mode # "other" /\ w \in {3, 5} /\
                       LET s == IF mode = "str" THEN TextOf(len, idx) ELSE Seeds[idx] IN Len(s) >= 1 /\ Ch(s, 1) = KwMark
               rt == skip \/ r.st = "unspec" \/ (r.st = "ok" /\ StructEq(r.v, v))
               c == [kind |-> "value", tag |-> mode, v |-> v, printed |-> p]
           IN /\ Assert(rt, <<"model round trip fails", p, r.st>>)
              /\ (skip \/ PrintT("CASE " \o ToJson(c)))
Spec == Init /\ [][Next]_vars
=============================================================================
