------------------------------- MODULE GenC12 -------------------------------
(***************************************************************************)
(* C12 generator.  Mode "qq": every quasiquote TEMPLATE up to a size bound *)
(* (lists, vectors, maps, symbols, atoms; unquote and splice-unquote at    *)
(* any position, the special heads also in non-head position), evaluated   *)
(* by the definition layer as TEMPLATE SUBSTITUTION.  Mode "mac": every    *)
(* macro-call program up to a size bound over user macros built from such  *)
(* templates (operands duplicated / unevaluated / spliced, recursive       *)
(* macro, macro expanding to a macro, local shadowing of a macro name, a   *)
(* function of the same shape as control), the library macros cond or and  *)
(* -> ->>, and the three routes  c | (macroexpand c) | (eval (macroexpand  *)
(* c)).                                                                    *)
(***************************************************************************)
EXTENDS GenProg, Grammars

CONSTANTS Mode, MaxSize, SampleSize, SampleN

CtxForms == IF Mode = "lib" THEN C12LCtxForms ELSE C12CtxForms
CtxName == IF Mode = "lib" THEN "c12l" ELSE "c12"
G == CASE Mode = "qq" -> C12GQ [] Mode = "lib" -> C12GL [] OTHER -> C12GM
Wrap(t) == IF Mode = "qq" THEN ListV(<<SymV("quasiquote"), t>>) ELSE t

NMax == IF SampleSize > MaxSize THEN SampleSize ELSE MaxSize
ASSUME InitRegisters
ASSUME SetContext(CtxForms)
ASSUME TLCSet(3, Norm(G))
ASSUME TLCSet(4, Norm(CountTab(G, NMax, <<>>)))
ASSUME PrintT("CTX " \o ToJson([name |-> CtxName, forms |-> CtxForms]))
ASSUME PrintT(<<"COUNTS", TLCGet(4)>>)

VARIABLES sz, idx, ph
Init == /\ ph = 0
        /\ \/ sz \in 1..MaxSize /\ idx \in 0..(TLCGet(4)[sz] - 1)
           \/ SampleN > 0 /\ sz = SampleSize /\ idx \in RandomSubset(SampleN, 0..(TLCGet(4)[SampleSize] - 1))

Next == /\ ph = 0 /\ ph' = 1 /\ UNCHANGED <<sz, idx>>
        /\ LET prog == Wrap(Decode(TLCGet(3), TLCGet(4), sz, idx))
               r == RunInCtx(<<prog>>)
               c == [kind |-> "prog", tag |-> Mode \o ":" \o HeadTag(IF Mode = "qq" THEN prog.xs[2] ELSE prog),
                     src |-> PrStr(prog), ctx |-> CtxName, forms |-> <<prog>>, allow |-> Outcome(r, {"x"}),
                     opt |-> [alsotext |-> "1"]]
               \* QQAlgebra (theorem checked on the model for every template): evaluating the cons/concat/vec/quote
               \* REWRITE the code performs gives the same result and effects as the template SUBSTITUTION
               alg == IF Mode = "qq" /\ r.k # "unspec" /\ QQWellFormed(prog.xs[2])
                      THEN LET r2 == RunInCtx(<<QQRewrite(prog.xs[2])>>) IN
                             r2.k = r.k /\ (r.k = "val" => StructEq(r2.v, r.v) /\ r2.v.t = r.v.t) /\ r2.st.eff = r.st.eff
                      ELSE TRUE
           IN /\ Assert(alg, <<"QQAlgebra fails on the model", PrStr(prog)>>)
              /\ PrintT("CASE " \o ToJson(c))
Spec == Init /\ [][Next]_<<sz, idx, ph>>
=============================================================================
