------------------------------- MODULE GenC12 -------------------------------
(***************************************************************************)
(* C12 generator.  Mode "qq": every quasiquote TEMPLATE up to a size bound *)
(* (lists, vectors, maps, symbols, atoms; unquote and splice-unquote at    *)
(* any position, the special heads also in non-head position), evaluated   *)
(* by the definition layer as TEMPLATE SUBSTITUTION.  Mode "mac": every    *)
(* macro-call program up to a size bound over user macros built from such  *)
(* templates (operands duplicated / unevaluated / spliced, recursive       *)
(* macro, macro expanding to a macro, local shadowing of a macro name, a   *)
(* function of the same shape as control), the library macros cond or and  *)
(* -> ->>, and the three routes  c | (macroexpand c) | (eval (macroexpand  *)
(* c)).                                                                    *)
(***************************************************************************)
EXTENDS GenProg

CONSTANTS Mode, MaxSize, SampleSize, SampleN

CtxText == "(def x 7) (def xs (list 1 2)) (def v [3 4]) (def em ()) " \o
           "(defmacro m1 (fn [a] `(list ~a ~a))) " \o
           "(defmacro m2 (fn [a & r] `(if ~a (do ~@r) nil))) " \o
           "(defmacro m3 (fn [a] (list 'quote a))) " \o
           "(defmacro m4 (fn [a] `(m1 (m3 ~a)))) " \o
           "(defmacro mrec (fn [n] (if (< n 1) :done `(mrec ~(- n 1))))) " \o
           "(defmacro m5 (fn [a b] `[~b ~@(list a a) {:k ~a}])) " \o
           "(defmacro mx (fn [a] `(let [x 1] (list x ~a)))) " \o
           "(defmacro mempty (fn [& r] ())) " \o
           "(defmacro mcall (fn [& xs] `(~@xs))) " \o
           "(def f1 (fn [a] (list a a)))"
CtxForms == ReadAll(CtxText)

GQ == Grammar(
  <<"1", "a", ":k", "\"s\"", "~x", "~@xs", "~@em", "~@v", "~(trace! x)", "~@(trace! xs)", "unquote",
    "splice-unquote", "x", "()", "~@x">>,
  <<"(_1)", "[_1]", "{:k _1}", "(a _1)">>,
  <<"(_1 _2)", "[_1 _2]">>,
  <<"(_1 _2 _3)", "[_1 _2 _3]">>)

GM == Grammar(
  <<"1", "x", "nil", "false", "(trace! 1)", "(trace! x)", "(trace! nil)", "xs", "(mrec 2)", "(macroexpand (mrec 2))", "(mempty)", "(mcall)",
    "(macroexpand (mcall))">>,
  <<"(m1 _1)", "(m3 _1)", "(f1 _1)", "(m4 _1)", "(mx _1)", "(mempty _1)", "(mcall list _1)", "(macroexpand (m1 _1))", "(eval (macroexpand (m1 _1)))",
    "(macroexpand (m4 _1))", "(eval (macroexpand (m4 _1)))", "(or _1)", "(and _1)", "(-> _1 inc)",
    "(cond _1 :c)", "(let [m1 f1] (m1 _1))", "(macroexpand (m2 _1))", "(macroexpand (f1 _1))",
    "(let [m3 (fn [a] :local)] (macroexpand (m3 _1)))">>,
  <<"(m2 _1 _2)", "(or _1 _2)", "(and _1 _2)", "(cond _1 _2)", "(-> _1 (list _2))", "(->> _1 (list _2))",
    "(macroexpand (or _1 _2))", "(eval (macroexpand (or _1 _2)))", "(m5 _1 _2)", "(macroexpand (m5 _1 _2))",
    "(eval (macroexpand (and _1 _2)))", "(macroexpand (cond _1 _2))">>,
  <<"(m2 _1 _2 _3)", "(or _1 _2 _3)", "(and _1 _2 _3)", "(cond _1 _2 true _3)">>)

G == IF Mode = "qq" THEN GQ ELSE GM
Wrap(t) == IF Mode = "qq" THEN ListV(<<SymV("quasiquote"), t>>) ELSE t

NMax == IF SampleSize > MaxSize THEN SampleSize ELSE MaxSize
ASSUME InitRegisters
ASSUME SetContext(CtxForms)
ASSUME TLCSet(3, G)
ASSUME TLCSet(4, CountTab(G, NMax, <<>>))
ASSUME PrintT("CTX " \o ToJson([name |-> "c12", forms |-> CtxForms]))
ASSUME PrintT(<<"COUNTS", TLCGet(4)>>)

VARIABLES sz, idx, ph
Init == /\ ph = 0
        /\ \/ sz \in 1..MaxSize /\ idx \in 0..(TLCGet(4)[sz] - 1)
           \/ SampleN > 0 /\ sz = SampleSize /\ idx \in RandomSubset(SampleN, 0..(TLCGet(4)[SampleSize] - 1))

Next == /\ ph = 0 /\ ph' = 1 /\ UNCHANGED <<sz, idx>>
        /\ LET prog == Wrap(Decode(TLCGet(3), TLCGet(4), sz, idx))
               r == RunInCtx(<<prog>>)
               c == [kind |-> "prog", tag |-> Mode \o ":" \o HeadTag(IF Mode = "qq" THEN prog.xs[2] ELSE prog),
                     src |-> PrStr(prog), ctx |-> "c12", forms |-> <<prog>>, allow |-> Outcome(r, {"x"})]
           IN PrintT("CASE " \o ToJson(c))
Spec == Init /\ [][Next]_<<sz, idx, ph>>
=============================================================================
