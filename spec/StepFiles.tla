------------------------------- MODULE StepFiles -------------------------------
(***************************************************************************)
(* The ORACLE checked against the project's own documentation: the step    *)
(* files (tests/step*.mal) are input / expected-output pairs.  Every input *)
(* is read with Text.Read and evaluated with Def in the per-file state     *)
(* (forms of one file are evaluated in order, in one environment); the     *)
(* value must be the documented one.  Reading rule for this repository's   *)
(* step files: its runner shows an ERROR as `nil`, so a documented `nil`   *)
(* stands for {nil, error}.  Where the definition layer abstains, or the   *)
(* input is outside its fragment (floats, printing builtins, host          *)
(* functions), the pair is skipped and counted.                            *)
(* A disagreement is a defect of the SPECIFICATION (or a documented defect *)
(* of the code): it is printed, never a verdict about the code.            *)
(***************************************************************************)
EXTENDS Def, Json, IOUtils

ASSUME InitRegisters
ASSUME TLCSet(5, Norm(ndJsonDeserialize(IOEnv.VERIF_TRACE)))
Pairs == TLCGet(5)      \* [file, idx, input, expect (text), has (0/1)]

ReadPrintFiles == {"step0_repl.mal", "step1_read_print.mal"}   \* these document READ then PRINT, no evaluation

VARIABLES l, st, tainted
Init == l = 1 /\ st = Base /\ tainted = {}
IdsOf(text) == LET lx == Tokenize(text) IN {lx.toks[k].s : k \in {j \in 1..Len(lx.toks) : lx.toks[j].k = "id"}}
DefName(v) == IF v.t = "list" /\ Len(v.xs) >= 2 /\ v.xs[1].t = "sym" /\ v.xs[1].s \in {"def", "defmacro"} /\ v.xs[2].t = "sym" THEN {v.xs[2].s} ELSE {}
Files == {Pairs[k].file : k \in 1..Len(Pairs)}

Next ==
  /\ l <= Len(Pairs)
  /\ LET p == Pairs[l]
         fresh == l = 1 \/ Pairs[l - 1].file # p.file
         s0 == IF fresh THEN Base ELSE st
         rd == Read(p.input)
         t0 == IF fresh THEN {} ELSE tainted
         hit == IdsOf(p.input) \cap t0 # {}
     IN IF rd.st # "ok" THEN
          /\ PrintT("SKIP " \o ToString(l) \o " input: " \o rd.st) /\ st' = s0 /\ l' = l + 1
          /\ tainted' = t0
        ELSE IF p.file \in ReadPrintFiles THEN
          /\ st' = s0 /\ l' = l + 1 /\ tainted' = t0
          /\ IF p.has = 0 THEN TRUE
             ELSE LET ex == Read(p.expect) IN
               IF ex.st # "ok" THEN PrintT("SKIP " \o ToString(l) \o " expectation not readable")
               ELSE IF StructEq(ex.v, rd.v) /\ (IsSeq(rd.v) => rd.v.t = ex.v.t) THEN PrintT("OK " \o ToString(l) \o " read-print")
               ELSE PrintT("DISAGREE " \o ToString(l) \o " Text.Read gives " \o PrStr(rd.v) \o ", documented " \o p.expect)
        ELSE LET r == Ev(rd.v, 1, [s0 EXCEPT !.fuel = Fuel0, !.eff = <<>>])
                 outside == r.k \in {"unspec", "div"} \/ (r.k = "err" /\ r.v.s = "undefined") IN
          /\ st' = IF r.k \in {"val", "thr", "err"} THEN r.st ELSE s0
          /\ l' = l + 1
          \* a definition the oracle could not follow (or that uses such a name) makes that NAME unreliable
          /\ tainted' = IF outside \/ hit THEN t0 \cup DefName(rd.v) ELSE t0
          /\ IF hit THEN PrintT("SKIP " \o ToString(l) \o " uses a name defined outside the fragment")
             ELSE IF outside THEN PrintT("SKIP " \o ToString(l) \o " outside the fragment: " \o r.k)
             ELSE IF p.has = 0 THEN TRUE
             ELSE IF r.k \in {"thr", "err"} THEN
                    (IF p.expect = "nil" THEN PrintT("OK " \o ToString(l) \o " error-as-nil")
                     ELSE PrintT("DISAGREE " \o ToString(l) \o " definition raises " \o r.k \o ", documented " \o p.expect))
             ELSE LET ex == Read(p.expect) IN
                    IF ex.st # "ok" \/ ~IsData(r.v) THEN PrintT("SKIP " \o ToString(l) \o " expectation not data")
                    ELSE IF StructEq(ex.v, r.v) /\ (IsSeq(r.v) => r.v.t = ex.v.t) THEN PrintT("OK " \o ToString(l))
                    ELSE PrintT("DISAGREE " \o ToString(l) \o " definition gives " \o PrStr(r.v) \o ", documented " \o p.expect)
Spec == Init /\ [][Next]_<<l, st, tainted>>
=============================================================================
