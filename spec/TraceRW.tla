------------------------------- MODULE TraceRW -------------------------------
(***************************************************************************)
(* Direction B for C11, "every global definition is seen either entirely   *)
(* or not at all".  Writers (one per name) define the name with the values *)
(* 1, 2, 3, ... ; readers look names up from nested scopes, closures,      *)
(* macro expansions and futures.  The log has one line at the start and    *)
(* one at the return of every operation, in real-time order.  A global is  *)
(* a linearizable single-writer register (EnvLock.tla: ReadsSeeLatestSet,  *)
(* NoTornRead): a read that started after write k had returned, or after   *)
(* some read had returned k, returns at least k; it never returns a value  *)
(* whose write had not started when the read returned; and it returns an   *)
(* ENTIRE definition (val = -1 marks a value that is none of the values    *)
(* ever defined).                                                          *)
(***************************************************************************)
EXTENDS Integers, Sequences, TLC, Json, IOUtils

ASSUME TLCSet(5, ndJsonDeserialize(IOEnv.VERIF_TRACE))
Trace == TLCGet(5)

VARIABLES l, begun, floor, lb
vars == <<l, begun, floor, lb>>
Init == l = 1 /\ begun = <<>> /\ floor = <<>> /\ lb = <<>>

Max(a, b) == IF a > b THEN a ELSE b
Reject(why) == PrintT("REJECT " \o ToString(l) \o " " \o why)

Step ==
  /\ l <= Len(Trace)
  /\ l' = l + 1
  /\ LET e == Trace[l] IN
     CASE e.ev = "begin" -> /\ begun' = [n \in 1..e.n |-> 0] /\ floor' = [n \in 1..e.n |-> 0] /\ lb' = <<>>
       [] e.ev = "wb" -> /\ begun' = [begun EXCEPT ![e.name] = e.val] /\ UNCHANGED <<floor, lb>>
                         /\ (e.val = begun[e.name] + 1 \/ Reject("writer out of order"))
       [] e.ev = "we" -> /\ floor' = [floor EXCEPT ![e.name] = Max(@, e.val)] /\ UNCHANGED <<begun, lb>>
       [] e.ev = "rb" -> /\ lb' = (e.tid :> floor[e.name]) @@ lb /\ UNCHANGED <<begun, floor>>
       [] e.ev = "re" ->
            /\ IF e.val = -1 THEN Reject("read of g" \o ToString(e.name) \o " via " \o e.via \o " returned a value that no definition ever gave it (torn)")
               ELSE IF e.val < lb[e.tid]
               THEN Reject("read of g" \o ToString(e.name) \o " via " \o e.via \o " returned definition " \o ToString(e.val) \o
                           " although definition " \o ToString(lb[e.tid]) \o " was complete (or already seen) before the read began")
               ELSE IF e.val > begun[e.name]
               THEN Reject("read of g" \o ToString(e.name) \o " via " \o e.via \o " returned definition " \o ToString(e.val) \o
                           " before its def had started")
               ELSE TRUE
            /\ floor' = [floor EXCEPT ![e.name] = Max(@, e.val)] /\ UNCHANGED <<begun, lb>>
Done == l > Len(Trace) /\ UNCHANGED vars
Next == Step \/ Done
Spec == Init /\ [][Next]_vars
=============================================================================
