------------------------------- MODULE MCEval -------------------------------
(***************************************************************************)
(* Refinement check of the implementation-shaped evaluator (Eval.tla)      *)
(* against the definition layer (Def.tla): for EVERY program of the three  *)
(* grammars up to a size bound, the small-step machine ends with the same  *)
(* outcome and the same effect log as the big-step definition, and it      *)
(* never gets stuck (Step is total on every configuration it reaches).     *)
(***************************************************************************)
EXTENDS Eval, Enum, Grammars, Json

CONSTANTS Which, MaxSize

G == CASE Which = "c01" -> C01G [] Which = "c03" -> C03G [] Which = "c12" -> C12GM [] Which = "c12qq" -> C12GQ
CtxForms == CASE Which = "c01" -> C01CtxForms [] Which = "c03" -> C03CtxForms [] OTHER -> C12CtxForms
Wrap(t) == IF Which = "c12qq" THEN ListV(<<SymV("quasiquote"), t>>) ELSE t

ASSUME InitRegisters
ASSUME SetContext(CtxForms)
ASSUME TLCSet(3, Norm(G))
ASSUME TLCSet(4, Norm(CountTab(G, MaxSize, <<>>)))

VARIABLES sz, idx, ph
Init == ph = 0 /\ sz \in 1..MaxSize /\ idx \in 0..(TLCGet(4)[sz] - 1)
Next == /\ ph = 0 /\ ph' = 1 /\ UNCHANGED <<sz, idx>>
        /\ LET prog == Wrap(Decode(TLCGet(3), TLCGet(4), sz, idx))
               d == Outcome(RunInCtx(<<prog>>), {})
               c == RunForms(<<prog>>, 1, CtxBase, <<>>)
               m == MachineOutcome(c)
               same == d.k \in {"unspec", "div"} \/ m.k \in {"unspec", "div"} \/ (m.k = d.k /\ m.v = d.v /\ m.eff = d.eff)
           IN Assert(same, <<"Eval does not refine Def on", PrStr(prog), d.k, m.k, PrStr(d.v), PrStr(m.v)>>)
Spec == Init /\ [][Next]_<<sz, idx, ph>>
=============================================================================
