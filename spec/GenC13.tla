------------------------------- MODULE GenC13 -------------------------------
(***************************************************************************)
(* C13 generator: every collection builtin applied to every argument tuple *)
(* (arity 0..MaxAr) over a pool of data values; the allowed outcome is     *)
(* computed by the definition layer (Coll.Pure, Def.CallBuiltin).          *)
(* One TLC state per (builtin, arity, tuple index); decoded in Next.       *)
(***************************************************************************)
EXTENDS Def, Json

CONSTANTS MaxAr,      \* maximal arity enumerated with the full pool
          Pool3       \* size of the pool prefix used for arity 3 (0 = no arity 3)

Names == <<"list", "vector", "cons", "concat", "vec", "nth", "first", "rest", "count", "empty?",
           "conj", "seq", "map", "apply", "take", "take-last", "drop", "drop-last", "subvec", "range",
           "hash-map", "assoc", "dissoc", "get", "contains?", "keys", "vals", "merge", "rename-keys",
           "get-in", "assoc-in", "update", "update-in", "set", "hash-set",
           "nil?", "true?", "false?", "symbol?", "keyword?", "string?", "number?", "list?", "vector?",
           "map?", "set?", "sequential?", "fn?", "macro?", "atom?", "split", "type?", "assert", "with-meta">>

\* the first Pool3 values are the ones used for 3-argument calls
PoolText == <<"[1 2 3]", "{:a 1}", "1", ":a", "nil", "(1 2 3)", "0", "[:a]", "#{:a \"b\"}", "2", "inc", "{:a {:b 1}}",
              "()", "[]", "{}", "#{}", "(1)", "[1]", "{\"a\" 1 :b nil}", "-1", "5", "\"s\"", "\"\"", "q",
              "true", "false", "[:a :b]", "\"a\"", ":b", "[0]", "{:b :a}", "(:a 1)", "identity",
              "{:a 1 :b 2}", "{:a :b :b :a}", "{:a :b :b :c}", "[1 [2 3]]">>
FnRefs == {"inc", "identity"}
Pool == [k \in 1..Len(PoolText) |->
           IF PoolText[k] \in FnRefs THEN Mk("fnref", 0, PoolText[k], <<>>, NoMap) ELSE Parse(PoolText[k])]
NP == Len(PoolText)

ASSUME InitRegisters
ASSUME TLCSet(3, Norm(Pool))

RECURSIVE Pow(_, _)
Pow(b, e) == IF e = 0 THEN 1 ELSE b * Pow(b, e - 1)

VARIABLES b, ar, idx, ph

Init == /\ ph = 0
        /\ b \in 1..Len(Names)
        /\ \/ ar \in 0..MaxAr /\ idx \in 0..(Pow(NP, ar) - 1)
           \/ Pool3 > 0 /\ MaxAr < 3 /\ ar = 3 /\ idx \in 0..(Pow(Pool3, 3) - 1)

Resolve(a) == IF a.t = "fnref" THEN Lookup(Base.envs, 1, a.s).v ELSE a

Next == /\ ph = 0 /\ ph' = 1 /\ UNCHANGED <<b, ar, idx>>
        /\ LET pool == TLCGet(3)
               base == IF ar = 3 /\ MaxAr < 3 THEN Pool3 ELSE NP
               args == [k \in 1..ar |-> pool[((idx \div Pow(base, k - 1)) % base) + 1]]
               vals == [k \in 1..ar |-> Resolve(args[k])]
               name == Names[b]
               o == IF name \in PureNames THEN Pure(name, vals)
                    ELSE LET r == CallBuiltin(name, vals, Base) IN
                           [k |-> r.k, v |-> Abstract(r.v, r.st), ord |-> TRUE]
               c == [kind |-> "call", tag |-> name, name |-> name, args |-> args,
                     src |-> "(" \o name \o Join([k \in 1..ar |-> " " \o PrStr(args[k])], "") \o ")",
                     allow |-> [k |-> o.k, v |-> o.v, ord |-> o.ord]]
           IN PrintT("CASE " \o ToJson(c))

Spec == Init /\ [][Next]_<<b, ar, idx, ph>>
=============================================================================
