------------------------------- MODULE GenC13 -------------------------------
(***************************************************************************)
(* C13 generator: every collection builtin applied to every argument tuple *)
(* (arity 0..MaxAr) over a pool of data values; the allowed outcome is     *)
(* computed by the definition layer (Coll.Pure, Def.CallBuiltin).          *)
(* One TLC state per (builtin, arity, tuple index); decoded in Next.       *)
(***************************************************************************)
EXTENDS Def, Json

CONSTANTS MaxAr,      \* maximal arity enumerated with the full pool
          Pool3,      \* size of the pool prefix used for arity 3 (0 = no arity 3)
          Pure2       \* number of second arguments of the purity cases (0 = none)

Names == <<"list", "vector", "cons", "concat", "vec", "nth", "first", "rest", "count", "empty?",
           "conj", "seq", "map", "apply", "take", "take-last", "drop", "drop-last", "subvec", "range",
           "hash-map", "assoc", "dissoc", "get", "contains?", "keys", "vals", "merge", "rename-keys",
           "get-in", "assoc-in", "update", "update-in", "set", "hash-set",
           "nil?", "true?", "false?", "symbol?", "keyword?", "string?", "number?", "list?", "vector?",
           "map?", "set?", "sequential?", "fn?", "macro?", "atom?", "split", "type?", "assert", "with-meta">>

\* the first Pool3 values are the ones used for 3-argument calls
PoolText == <<"[1 2 3]", "{:a 1}", "1", ":a", "nil", "(1 2 3)", "0", "[:a]", "#{:a \"b\"}", "2", "inc", "{:a {:b 1}}",
              "()", "[]", "{}", "#{}", "(1)", "[1]", "{\"a\" 1 :b nil}", "-1", "5", "\"s\"", "\"\"", "q",
              "true", "false", "[:a :b]", "\"a\"", ":b", "[0]", "{:b :a}", "(:a 1)", "identity",
              "{:a 1 :b 2}", "{:a :b :b :a}", "{:a :b :b :c}", "[1 [2 3]]", "(fn [& r] r)",
              "\"añ日\"">>
FnRefs == {"inc", "identity"}
\* a function FORM is passed unquoted (it evaluates to a closure with a rest parameter)
FnForms == {"(fn [& r] r)"}
Pool == [k \in 1..Len(PoolText) |->
           IF PoolText[k] \in FnRefs THEN Mk("fnref", 0, PoolText[k], <<>>, NoMap)
           ELSE IF PoolText[k] \in FnForms THEN Mk("fnform", 0, PoolText[k], <<Parse(PoolText[k])>>, NoMap)
           ELSE Parse(PoolText[k])]
NP == Len(PoolText)

ASSUME InitRegisters
ASSUME TLCSet(3, Norm(Pool))

RECURSIVE Pow(_, _)
Pow(b, e) == IF e = 0 THEN 1 ELSE b * Pow(b, e - 1)

\* purity ("behave as pure functions"): one value v, made by an expression the reader / evaluator builds, is
\* passed to the same builtin twice with different other arguments: both results are the model's and v is intact
P2A == <<"[1 2 3]", "'(1 2 3)", "(rest [0 1 2 3])", "(subvec [1 2 3 4 5] 0 3)", "(range 0 5)", "(map inc [0 1 2])",
         "(vec '(1 2 3))", "(concat [1 2] [3])", "{:a 1 :c 3}", "#{:a :c}", "(conj [1 2] 3)", "(cons 1 '(2 3))",
         \* EMPTY collections made along different construction paths
         "(set nil)", "(set [])", "(hash-set)", "(hash-map)", "(dissoc {:a 1} :a)", "(rest [1])", "(seq [])">>
P2B == <<":a", "4", "[4]", "'(5 6)", "0", "{:b 2}", "nil", "[:c 7]", "1", "inc">>
ASSUME TLCSet(6, Norm([k \in 1..Len(P2A) |-> LET r == Ev(Parse(P2A[k]), 1, Base) IN
                                               IF r.k = "val" THEN r.v ELSE Assert(FALSE, <<"P2A", k, r.k>>)]))
ASSUME TLCSet(7, Norm([k \in 1..Len(P2B) |-> LET r == Ev(Parse(P2B[k]), 1, Base) IN
                                               IF r.k = "val" THEN r.v ELSE Assert(FALSE, <<"P2B", k, r.k>>)]))

\* index sweeps: every builtin taking positions, on sequences of length 0..4, with every index from -1 to length + 3
\* (the values are built from Go with spare capacity: an index within the capacity but beyond the length is out of range)
IdxSeqs == <<"[]", "[1]", "[1 2 3]", "(1 2 3)", "()", "[1 2 3 4]">>
IdxCalls == <<"(subvec _S _I _J)", "(subvec _S _I)", "(nth _S _I)", "(take _I _S)", "(drop _I _S)", "(take-last _I _S)",
              "(drop-last _I _S)", "(assoc _S _I 9)", "(get _S _I)", "(update _S _I inc)", "(contains? _S _I)",
              "(nth _S _I _J)", "(get _S _I _J)">>
IdxRange == 9   \* indices -1 .. 7
ASSUME TLCSet(8, Norm([k \in 1..Len(IdxCalls) |-> Parse(IdxCalls[k])]))
ASSUME TLCSet(9, Norm([k \in 1..Len(IdxSeqs) |-> Parse(IdxSeqs[k])]))

\* path sweeps: the nested-access builtins on maps / vectors with missing, nil-valued and non-collection levels,
\* with every path of a small family (keys, indices, mixed, non-keys)
PathColls == <<"{:a nil}", "{:a {:b 1}}", "{:a {:b nil}}", "{}", "{:a 1}", "nil", "[nil]", "[[1 2] {:a 3}]",
               "{:a [1 {:b 2}]}", "{\"a\" {:b 1} :a {\"b\" 2}}", "{:a {}}", "[]", "{:a false}", "#{:a}", "{:a #{:b}}", "(1 2)", "{:a (1 2)}">>
PathPaths == <<"[]", "[:a]", "[:a :b]", "[:a :b :c]", "[:b :a]", "[0]", "[0 1]", "[1 :a]", "[:a 1 :b]", "[:a 0]",
               "[\"a\" :b]", "[:a \"b\"]", "[:c 7]", "[nil]", "(:a :b)", "[:a nil]">>
PathCalls == <<"(get-in _S _I)", "(assoc-in _S _I 9)", "(update-in _S _I list)", "(assoc-in _S _I nil)",
               "(update-in _S _I inc)", "(update-in _S _I (fn [x] (if (nil? x) :none x)))", "(update-in _S _I (fn [x] :b))",
               "(update _S (first _I) (fn [x] :b))", "(assoc _S 0 :x (first _I))", "(assoc _S :a 1 (first _I))">>
ASSUME TLCSet(10, Norm([k \in 1..Len(PathCalls) |-> Parse(PathCalls[k])]))
ASSUME TLCSet(11, Norm([k \in 1..Len(PathColls) |-> Parse(PathColls[k])]))
ASSUME TLCSet(12, Norm([k \in 1..Len(PathPaths) |-> Parse(PathPaths[k])]))

VARIABLES b, ar, idx, ph

Init == /\ ph = 0
        /\ b \in 1..Len(Names)
        /\ \/ ar \in 0..MaxAr /\ idx \in 0..(Pow(NP, ar) - 1)
           \/ Pool3 > 0 /\ MaxAr < 3 /\ ar = 3 /\ idx \in 0..(Pow(Pool3, 3) - 1)
           \/ Pure2 > 0 /\ ar = -2 /\ idx \in 0..(Len(P2A) * Pure2 * Pure2 * 2 - 1)
           \/ b <= Len(IdxCalls) /\ ar = -3 /\ idx \in 0..(Len(IdxSeqs) * IdxRange * IdxRange - 1)
           \/ b <= Len(PathCalls) /\ ar = -4 /\ idx \in 0..(Len(PathColls) * Len(PathPaths) - 1)

Resolve(a) == IF a.t = "fnref" THEN Lookup(Base.envs, 1, a.s).v
              ELSE IF a.t = "fnform" THEN Ev(a.xs[1], 1, Base).v ELSE a

\* a purity case: (let [v A] (let [r1 (f v B1) r2 (f v B2)] (list r1 r2 v)))   (side = 0)
\*            or  (let [v A] (let [r1 (f B1 v) r2 (f B2 v)] (list r1 r2 v)))   (side = 1)
PureCase ==
  LET na == Len(P2A)
      ia == (idx % na) + 1
      i1 == ((idx \div na) % Pure2) + 1
      i2 == ((idx \div (na * Pure2)) % Pure2) + 1
      side == (idx \div (na * Pure2 * Pure2)) % 2
      name == Names[b]
      av == TLCGet(6)[ia]
      b1 == TLCGet(7)[i1]
      b2 == TLCGet(7)[i2]
      Call(x) == IF side = 0 THEN <<av, x>> ELSE <<x, av>>
      Go(x) == IF name \in PureNames THEN Pure(name, Call(x))
               ELSE LET r == CallBuiltin(name, Call(x), Base) IN [k |-> r.k, v |-> Abstract(r.v, r.st), ord |-> TRUE]
      o1 == Go(b1)
      o2 == Go(b2)
      CallT(x) == IF side = 0 THEN "(" \o name \o " v " \o x \o ")" ELSE "(" \o name \o " " \o x \o " v)"
      text == "(let [v " \o P2A[ia] \o "] (let [r1 " \o CallT(P2B[i1]) \o " r2 " \o CallT(P2B[i2]) \o "] (list r1 r2 v)))"
      ok == o1.k = "val" /\ o2.k = "val" /\ o1.ord /\ o2.ord
  IN [kind |-> "prog", tag |-> "pure2:" \o name, name |-> name, forms |-> <<>>, text |-> text, src |-> text,
      opt |-> [route |-> "text"],
      allow |-> [k |-> IF ok THEN "val" ELSE "unspec", v |-> IF ok THEN ListV(<<o1.v, o2.v, av>>) ELSE NilV,
                 eff |-> <<>>, g |-> <<>>]]

RECURSIVE SubstIdx(_, _, _, _)
SubstIdx(t, sv, i, j) ==
  IF t.t = "sym" /\ t.s = "_S" THEN ListV(<<SymV("quote"), sv>>)
  ELSE IF t.t = "sym" /\ t.s = "_I" THEN IntV(i)
  ELSE IF t.t = "sym" /\ t.s = "_J" THEN IntV(j)
  ELSE IF t.t = "list" THEN [t EXCEPT !.xs = [k \in 1..Len(t.xs) |-> SubstIdx(t.xs[k], sv, i, j)]]
  ELSE t
IdxCase ==
  LET ns == Len(IdxSeqs)
      is == (idx % ns) + 1
      i == ((idx \div ns) % IdxRange) - 1
      j == ((idx \div (ns * IdxRange)) % IdxRange) - 1
      form == SubstIdx(TLCGet(8)[b], TLCGet(9)[is], i, j)
      r == Ev(form, 1, Base)
  IN [kind |-> "prog", tag |-> "idx:" \o form.xs[1].s, name |-> form.xs[1].s, forms |-> <<form>>, src |-> PrStr(form),
      allow |-> [k |-> r.k, v |-> Abstract(r.v, r.st), eff |-> <<>>, g |-> <<>>]]

\* _S is the (quoted) collection, _I the (quoted) path
RECURSIVE SubstPath(_, _, _)
SubstPath(t, sv, pv) ==
  IF t.t = "sym" /\ t.s = "_S" THEN ListV(<<SymV("quote"), sv>>)
  ELSE IF t.t = "sym" /\ t.s = "_I" THEN ListV(<<SymV("quote"), pv>>)
  ELSE IF t.t = "list" THEN [t EXCEPT !.xs = [k \in 1..Len(t.xs) |-> SubstPath(t.xs[k], sv, pv)]]
  ELSE t
PathCase ==
  LET ns == Len(PathColls)
      is == (idx % ns) + 1
      ip == (idx \div ns) + 1
      form == SubstPath(TLCGet(10)[b], TLCGet(11)[is], TLCGet(12)[ip])
      r == Ev(form, 1, Base)
  IN [kind |-> "prog", tag |-> "path:" \o form.xs[1].s, name |-> form.xs[1].s, forms |-> <<form>>, src |-> PrStr(form),
      allow |-> [k |-> r.k, v |-> Abstract(r.v, r.st), eff |-> <<>>, g |-> <<>>]]

Next == /\ ph = 0 /\ ph' = 1 /\ UNCHANGED <<b, ar, idx>>
        /\ IF ar = -4 THEN PrintT("CASE " \o ToJson(PathCase)) ELSE
           IF ar = -3 THEN PrintT("CASE " \o ToJson(IdxCase)) ELSE
           IF ar = -2 THEN PrintT("CASE " \o ToJson(PureCase)) ELSE
            LET pool == TLCGet(3)
               base == IF ar = 3 /\ MaxAr < 3 THEN Pool3 ELSE NP
               args == [k \in 1..ar |-> pool[((idx \div Pow(base, k - 1)) % base) + 1]]
               vals == [k \in 1..ar |-> Resolve(args[k])]
               name == Names[b]
               o == IF name \in PureNames THEN Pure(name, vals)
                    ELSE LET r == CallBuiltin(name, vals, Base) IN
                           [k |-> r.k, v |-> Abstract(r.v, r.st), ord |-> TRUE]
               c == [kind |-> "call", tag |-> name, name |-> name, args |-> args,
                     src |-> "(" \o name \o Join([k \in 1..ar |-> " " \o (IF args[k].t = "fnform" THEN args[k].s ELSE PrStr(args[k]))], "") \o ")",
                     allow |-> [k |-> o.k, v |-> o.v, ord |-> o.ord]]
           IN PrintT("CASE " \o ToJson(c))

Spec == Init /\ [][Next]_<<b, ar, idx, ph>>
=============================================================================
