----------------------------- MODULE TraceFuture -----------------------------
(***************************************************************************)
(* Direction B for C10: recorded executions of the REAL future code        *)
(* (driver threads log the invocation and the response of every deref,     *)
(* future-done?, future-cancelled? and future-cancel with a global         *)
(* sequence number; hooks log the body's start and delivery) are checked   *)
(* against the write-once future:                                          *)
(*   P1  the body starts exactly once (and its effect is seen once)        *)
(*   P2  all derefs that return an outcome return the SAME outcome         *)
(*   P3  done? / cancelled? never answer false after having answered true  *)
(*       (answers ordered by real time: response before invocation)        *)
(*   P4  a done? invoked after some deref has returned answers true        *)
(*   P5  a cancel invoked after some deref has returned, on a future never *)
(*       cancelled before, answers false, and cancelled? stays false       *)
(*   P6  after a cancel has answered true, cancelled? and done? answer     *)
(*       true                                                              *)
(* "after" = the earlier operation's RESPONSE precedes the later one's     *)
(* INVOCATION in the global order; overlapping operations are not ordered. *)
(***************************************************************************)
EXTENDS Integers, Sequences, TLC, Json, IOUtils

ASSUME TLCSet(5, ndJsonDeserialize(IOEnv.VERIF_TRACE))
Trace == TLCGet(5)
Tids == 0..12

VARIABLES l, starts, outcome, derefReturned, doneTrue, cancTrue, cancelTrue, skip, nscen,
          invDerefRet,   \* [tid -> had a deref returned when this thread's current op was invoked]
          invDoneTrue, invCancTrue, invCancelTrue,
          uncAfter       \* future-cancelled? has answered false to a question asked after some deref had returned
vars == <<l, starts, outcome, derefReturned, doneTrue, cancTrue, cancelTrue, skip, nscen,
          invDerefRet, invDoneTrue, invCancTrue, invCancelTrue, uncAfter>>

F == [t \in Tids |-> FALSE]
\* the scenario line k belongs to started with begin.val = 1
BornDead(k) == \E b \in 1..k : /\ Trace[b].ev = "begin" /\ Trace[b].val = 1
                                /\ \A j \in (b + 1)..k : Trace[j].ev # "begin"
Init == /\ l = 1 /\ starts = 0 /\ outcome = "" /\ derefReturned = FALSE /\ doneTrue = FALSE /\ cancTrue = FALSE
        /\ cancelTrue = FALSE /\ skip = FALSE /\ nscen = 0
        /\ invDerefRet = F /\ invDoneTrue = F /\ invCancTrue = F /\ invCancelTrue = F /\ uncAfter = FALSE

Keep == UNCHANGED <<starts, outcome, derefReturned, doneTrue, cancTrue, cancelTrue, nscen, invDerefRet, invDoneTrue,
                    invCancTrue, invCancelTrue, uncAfter>>
Reject(why) == PrintT("REJECT " \o ToString(l) \o " " \o why) /\ skip' = TRUE /\ l' = l + 1 /\ Keep

Step ==
  /\ l <= Len(Trace)
  /\ LET e == Trace[l] t == e.tid IN
     IF e.ev = "begin" THEN
       /\ starts' = 0 /\ outcome' = "" /\ derefReturned' = FALSE /\ doneTrue' = FALSE /\ cancTrue' = FALSE
       /\ cancelTrue' = FALSE /\ skip' = FALSE /\ nscen' = nscen + 1 /\ l' = l + 1
       /\ invDerefRet' = F /\ invDoneTrue' = F /\ invCancTrue' = F /\ invCancelTrue' = F /\ uncAfter' = FALSE
     ELSE IF skip THEN l' = l + 1 /\ UNCHANGED <<skip>> /\ Keep
     ELSE IF e.ev = "start" THEN
       IF starts >= 1 THEN Reject("P1: the body was started a second time")
       ELSE starts' = 1 /\ l' = l + 1 /\ UNCHANGED <<outcome, derefReturned, doneTrue, cancTrue, cancelTrue, skip, nscen,
                                                     invDerefRet, invDoneTrue, invCancTrue, invCancelTrue, uncAfter>>
     ELSE IF e.ev = "end" THEN
       \* exactly once; a body whose context was cancelled before its first form ran shows no effect -- nor does one
       \* whose creator's context had ended before it started (begin.val = 1: the scenario ends that context first)
       IF e.val > 1 \/ (e.val = 0 /\ ~cancelTrue /\ ~BornDead(l)) THEN Reject("P1: the body's effect was observed " \o ToString(e.val) \o " times")
       ELSE l' = l + 1 /\ UNCHANGED skip /\ Keep
     ELSE IF e.ev = "bodyctx" THEN
       \* P5 "changes nothing": the context of the body is cancelled only by a future-cancel that answered true
       IF e.val = 0 /\ ~cancelTrue THEN Reject("P5: the body's context is cancelled although no future-cancel has answered true")
       ELSE l' = l + 1 /\ UNCHANGED skip /\ Keep
     ELSE IF e.ev = "inv" THEN
       /\ invDerefRet' = [invDerefRet EXCEPT ![t] = derefReturned] /\ invDoneTrue' = [invDoneTrue EXCEPT ![t] = doneTrue]
       /\ invCancTrue' = [invCancTrue EXCEPT ![t] = cancTrue] /\ invCancelTrue' = [invCancelTrue EXCEPT ![t] = cancelTrue]
       /\ l' = l + 1 /\ UNCHANGED <<starts, outcome, derefReturned, doneTrue, cancTrue, cancelTrue, skip, nscen, uncAfter>>
     ELSE IF e.ev = "res" /\ e.op = "deref" THEN
       IF e.out = "ctx" THEN l' = l + 1 /\ UNCHANGED skip /\ Keep      \* the caller's context ended
       ELSE IF outcome # "" /\ outcome # e.out THEN Reject("P2: derefs returned different outcomes: " \o outcome \o " / " \o e.out)
       ELSE /\ outcome' = e.out /\ derefReturned' = TRUE /\ l' = l + 1
            /\ UNCHANGED <<starts, doneTrue, cancTrue, cancelTrue, skip, nscen, invDerefRet, invDoneTrue, invCancTrue, invCancelTrue, uncAfter>>
     ELSE IF e.ev = "res" /\ e.op = "done?" THEN
       IF e.val = 0 /\ invDoneTrue[t] THEN Reject("P3: future-done? went back from true to false")
       ELSE IF e.val = 0 /\ invDerefRet[t] THEN Reject("P4: a deref had returned but future-done? answered false")
       ELSE IF e.val = 0 /\ invCancelTrue[t] THEN Reject("P6: future-cancel had answered true but future-done? answered false")
       ELSE /\ doneTrue' = (doneTrue \/ e.val = 1) /\ l' = l + 1
            /\ UNCHANGED <<starts, outcome, derefReturned, cancTrue, cancelTrue, skip, nscen, invDerefRet, invDoneTrue, invCancTrue, invCancelTrue, uncAfter>>
     ELSE IF e.ev = "res" /\ e.op = "cancelled?" THEN
       IF e.val = 0 /\ invCancTrue[t] THEN Reject("P3: future-cancelled? went back from true to false")
       ELSE IF e.val = 0 /\ invCancelTrue[t] THEN Reject("P6: future-cancel had answered true but future-cancelled? answered false")
       ELSE IF e.val = 1 /\ ~cancelTrue /\ ~(\E k \in 1..l : Trace[k].ev = "inv" /\ Trace[k].op = "cancel")
            THEN Reject("future-cancelled? is true although nobody called future-cancel")
       ELSE /\ cancTrue' = (cancTrue \/ e.val = 1) /\ l' = l + 1
            /\ uncAfter' = (uncAfter \/ (e.val = 0 /\ invDerefRet[t]))
            /\ UNCHANGED <<starts, outcome, derefReturned, doneTrue, cancelTrue, skip, nscen, invDerefRet, invDoneTrue, invCancTrue, invCancelTrue>>
     ELSE IF e.ev = "res" /\ e.op = "cancel" THEN
       IF e.val = 1 /\ invDerefRet[t] /\ ~invCancelTrue[t] /\ ~invCancTrue[t]
       THEN Reject("P5: future-cancel on a future that had completed uncancelled answered true")
       \* ... also when the cancel was invoked earlier: future-cancelled? answered false AFTER the completion, so the
       \* cancel took effect after the completion and must answer false
       ELSE IF e.val = 1 /\ uncAfter /\ ~cancelTrue
       THEN Reject("P5: future-cancel answered true although future-cancelled? had answered false after the future had completed")
       ELSE /\ cancelTrue' = (cancelTrue \/ e.val = 1) /\ l' = l + 1
            /\ UNCHANGED <<starts, outcome, derefReturned, doneTrue, cancTrue, skip, nscen, invDerefRet, invDoneTrue, invCancTrue, invCancelTrue, uncAfter>>
     ELSE l' = l + 1 /\ UNCHANGED skip /\ Keep

Done == l > Len(Trace) /\ UNCHANGED vars
Next == Step \/ Done
Spec == Init /\ [][Next]_vars
=============================================================================
