------------------------------- MODULE TraceEnv -------------------------------
(***************************************************************************)
(* Direction B for C11: the per-scope operation log recorded by the hook   *)
(* under every scope's lock while several evaluations run on one           *)
(* environment.  Isolation: a scope created during the concurrent phase    *)
(* (a let, a call, a catch) belongs to the evaluation that first touched   *)
(* it; no other evaluation may ever touch it.  Scopes that existed before  *)
(* (the root, the closure scopes of library functions) are shared.         *)
(***************************************************************************)
EXTENDS Integers, Sequences, TLC, Json, IOUtils

ASSUME TLCSet(5, ndJsonDeserialize(IOEnv.VERIF_TRACE))
Trace == TLCGet(5)

VARIABLES l, owner, skip, nscen
vars == <<l, owner, skip, nscen>>
Init == l = 1 /\ owner = <<>> /\ skip = FALSE /\ nscen = 0

Step ==
  /\ l <= Len(Trace)
  /\ LET e == Trace[l] IN
     IF e.ev = "begin" THEN owner' = <<>> /\ skip' = FALSE /\ nscen' = nscen + 1 /\ l' = l + 1
     ELSE IF skip \/ e.pre = 1 THEN l' = l + 1 /\ UNCHANGED <<owner, skip, nscen>>
     ELSE IF e.scope \in DOMAIN owner THEN
       IF owner[e.scope] # e.g
       THEN /\ PrintT("REJECT " \o ToString(l) \o " scope " \o ToString(e.scope) \o " of evaluation " \o ToString(owner[e.scope]) \o
                      " touched (" \o e.op \o " " \o e.key \o ") by evaluation " \o ToString(e.g))
            /\ skip' = TRUE /\ l' = l + 1 /\ UNCHANGED <<owner, nscen>>
       ELSE l' = l + 1 /\ UNCHANGED <<owner, skip, nscen>>
     ELSE owner' = (e.scope :> e.g) @@ owner /\ l' = l + 1 /\ UNCHANGED <<skip, nscen>>
Done == l > Len(Trace) /\ UNCHANGED vars
Next == Step \/ Done
Spec == Init /\ [][Next]_vars
=============================================================================
