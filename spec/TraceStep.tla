------------------------------- MODULE TraceStep -------------------------------
(***************************************************************************)
(* Trace validation of the STEPPER protocol (C18): programs of the three   *)
(* grammars were run on the real code with lisp.Stepper set to a scripted  *)
(* callback; every consultation was recorded (form handed to the callback, *)
(* number of live EVAL activations, the flags outing1/outing2 read at that *)
(* moment, the answer given).  The recorded sequence must be exactly the   *)
(* consultation log of the small-step machine Eval.tla run with the same   *)
(* script (Enter / flag updates / deferred resets / recursion at the loop  *)
(* bottom as in mal.go).  Also checked on the model for every record       *)
(* (StepperTransparent): outcome and effects with the script equal those   *)
(* without a stepper.                                                      *)
(***************************************************************************)
EXTENDS Eval, Enum, Grammars, Json, IOUtils

CONSTANT Which
G == CASE Which = "c01" -> C01G [] Which = "c03" -> C03G [] OTHER -> C12GM
CtxForms == CASE Which = "c01" -> C01CtxForms [] Which = "c03" -> C03CtxForms [] OTHER -> C12CtxForms

ASSUME InitRegisters
ASSUME SetContext(CtxForms)
ASSUME TLCSet(3, Norm(G))
ASSUME TLCSet(5, Norm(ndJsonDeserialize(IOEnv.VERIF_TRACE)))     \* records [sz, idx, script: Seq(STRING), log: Seq([a, d, o1, o2, cmd])]
Trace == TLCGet(5)
ASSUME TLCSet(4, Norm(CountTab(G, 6, <<>>)))

RECURSIVE StripG(_)
StripG(a) == IF a.t = "sym" /\ Len(a.s) >= 4 /\ SubSeq(a.s, 1, 3) = "G__" THEN SymV("G__#")
             ELSE IF a.t \in {"list", "vec"} THEN [a EXCEPT !.xs = [k \in 1..Len(a.xs) |-> StripG(a.xs[k])]]
             ELSE IF a.t = "map" THEN [a EXCEPT !.m = [k \in DOMAIN a.m |-> StripG(a.m[k])]]
             ELSE a
B(x) == IF x THEN 1 ELSE 0

VARIABLES l, ph
Init == ph = 0 /\ l \in 1..Len(Trace)
Next == /\ ph = 0 /\ ph' = 1 /\ l' = l
        /\ LET rec == Trace[l]
               prog == Decode(TLCGet(3), TLCGet(4), rec.sz, rec.idx)
               plain == RunForms(<<prog>>, 1, CtxBase, <<>>)
               c == RunFormsStepped(<<prog>>, 1, CtxBase, Dbg(rec.script))
               lg == c.dbg.log
               n == Len(lg)
               m == Len(rec.log)
               Same(j) == /\ StripG(AbstractV(lg[j][1], c.st.atoms)) = rec.log[j].a /\ lg[j][2] = rec.log[j].d
                          /\ B(lg[j][3]) = rec.log[j].o1 /\ B(lg[j][4]) = rec.log[j].o2 /\ lg[j][5] = rec.log[j].cmd
               firstDiff == CHOOSE j \in 1..(IF n < m THEN n ELSE m) + 1 :
                              (j <= n /\ j <= m => ~Same(j)) /\ \A i \in 1..(j - 1) : Same(i)
               transparent == MachineOutcome(plain) = MachineOutcome(c)
           IN /\ Assert(plain.v.k \in {"unspec", "div"} \/ transparent, <<"model: the stepper changes the outcome", PrStr(prog), rec.script>>)
              /\ IF c.v.k \in {"unspec", "div"} THEN PrintT("ABSTAIN " \o ToString(l))
                 ELSE IF n = m /\ firstDiff = n + 1 THEN TRUE
                 ELSE PrintT("REJECT " \o ToString(l) \o " " \o PrStr(prog) \o " script " \o ToString(rec.script) \o " : consultation " \o ToString(firstDiff) \o
                             " machine " \o (IF firstDiff <= n THEN PrStr(lg[firstDiff][1]) \o " @" \o ToString(lg[firstDiff][2]) \o " " \o lg[firstDiff][5] ELSE "(end)") \o
                             " real " \o (IF firstDiff <= m THEN PrStr(rec.log[firstDiff].a) \o " @" \o ToString(rec.log[firstDiff].d) \o " " \o rec.log[firstDiff].cmd ELSE "(end)"))
Spec == Init /\ [][Next]_<<l, ph>>
=============================================================================
