---------------------------- MODULE AtomCasProof ----------------------------
(***************************************************************************)
(* TLAPS proof (checked by tlapm: SMT / Zenon / Isabelle / PTL back ends)  *)
(* that the compare-and-set design of swap! (AtomCas.tla) never loses an   *)
(* update, for ANY set of threads and unbounded integers.                  *)
(***************************************************************************)
EXTENDS AtomCas, TLAPS

THEOREM InitInv == Init => Inv
  BY DEF Init, Inv, TypeOK, SnapshotsCurrent

THEOREM NextInv == Inv /\ [Next]_vars => Inv'
<1> SUFFICES ASSUME Inv, [Next]_vars PROVE Inv'
  OBVIOUS
<1>1. CASE UNCHANGED vars
  BY <1>1 DEF Inv, TypeOK, SnapshotsCurrent, vars
<1>2. ASSUME NEW t \in Threads, Snap(t) PROVE Inv'
  BY <1>2 DEF Inv, TypeOK, SnapshotsCurrent, Snap
<1>3. ASSUME NEW t \in Threads, Fn(t) PROVE Inv'
  BY <1>3 DEF Inv, TypeOK, SnapshotsCurrent, Fn
<1>4. ASSUME NEW t \in Threads, FnFails(t) PROVE Inv'
  BY <1>4 DEF Inv, TypeOK, SnapshotsCurrent, FnFails, Clear
<1>5. ASSUME NEW t \in Threads, Commit(t) PROVE Inv'
  BY <1>5 DEF Inv, TypeOK, SnapshotsCurrent, Commit, Clear
<1>6. ASSUME NEW t \in Threads, Retry(t) PROVE Inv'
  BY <1>6 DEF Inv, TypeOK, SnapshotsCurrent, Retry, Clear
<1>7. ASSUME NEW t \in Threads, Reset(t) PROVE Inv'
  BY <1>7 DEF Inv, TypeOK, SnapshotsCurrent, Reset
<1> QED
  BY <1>1, <1>2, <1>3, <1>4, <1>5, <1>6, <1>7 DEF Next

THEOREM StepProps == Inv /\ [Next]_vars => (NoLostUpdateStep /\ VersionMonotone)
<1> SUFFICES ASSUME Inv, [Next]_vars PROVE NoLostUpdateStep /\ VersionMonotone
  OBVIOUS
<1>1. NoLostUpdateStep
  BY DEF Inv, TypeOK, SnapshotsCurrent, NoLostUpdateStep, Commit
<1>2. VersionMonotone
  BY DEF Inv, TypeOK, VersionMonotone, Next, vars, Snap, Fn, FnFails, Commit, Retry, Reset, Clear
<1> QED
  BY <1>1, <1>2

THEOREM Safety == Spec => []Inv
<1>1. Inv /\ [][Next]_vars => []Inv
  BY NextInv, PTL
<1> QED
  BY InitInv, <1>1, PTL DEF Spec
=============================================================================
