------------------------------ MODULE AtomCas ------------------------------
(***************************************************************************)
(* C09, the design of swap! as compare-and-set retry, for ANY number of    *)
(* threads and unbounded values: the abstract machine that AtomImpl.tla    *)
(* (design "cas") refines (checked by TLC in MCAtom, property RefinesCas)  *)
(* and whose safety is PROVED here with TLAPS (tlapm), not model-checked:  *)
(*                                                                         *)
(*   Snap(t)    read cell and version in one critical section              *)
(*   Fn(t)      the update function runs with no lock held and yields any  *)
(*              value (it may take arbitrarily long: every other action    *)
(*              may interleave) -- or fails                                *)
(*   Commit(t)  one critical section: version unchanged -> install, bump   *)
(*   Retry(t)   version changed -> start over                              *)
(*   Reset(t,v) install v, bump the version                                *)
(*                                                                         *)
(* Safety (module AtomCasProof): Spec => []Inv, and every step satisfies   *)
(* NoLostUpdateStep: a swap! installs f(x) only while x is still the value *)
(* of the cell.                                                            *)
(***************************************************************************)
EXTENDS Integers

CONSTANT Threads
VARIABLES cell, ver, pc, old, seen, tmp
vars == <<cell, ver, pc, old, seen, tmp>>

Init == /\ cell = 0 /\ ver = 0
        /\ pc = [t \in Threads |-> "idle"] /\ old = [t \in Threads |-> 0]
        /\ seen = [t \in Threads |-> 0] /\ tmp = [t \in Threads |-> 0]

Snap(t) == /\ pc[t] = "idle"
           /\ old' = [old EXCEPT ![t] = cell] /\ seen' = [seen EXCEPT ![t] = ver]
           /\ pc' = [pc EXCEPT ![t] = "fn"] /\ UNCHANGED <<cell, ver, tmp>>
Fn(t) == /\ pc[t] = "fn"
         /\ tmp' \in [Threads -> Int] /\ \A u \in Threads \ {t} : tmp'[u] = tmp[u]
         /\ pc' = [pc EXCEPT ![t] = "commit"] /\ UNCHANGED <<cell, ver, old, seen>>
\* when an attempt ends, its snapshot and result are dead: they are cleared
Clear(t) == /\ old' = [old EXCEPT ![t] = 0] /\ seen' = [seen EXCEPT ![t] = 0] /\ tmp' = [tmp EXCEPT ![t] = 0]
FnFails(t) == /\ pc[t] = "fn" /\ pc' = [pc EXCEPT ![t] = "idle"] /\ Clear(t) /\ UNCHANGED <<cell, ver>>
Commit(t) == /\ pc[t] = "commit" /\ seen[t] = ver
             /\ cell' = tmp[t] /\ ver' = ver + 1
             /\ pc' = [pc EXCEPT ![t] = "idle"] /\ Clear(t)
Retry(t) == /\ pc[t] = "commit" /\ seen[t] # ver
            /\ pc' = [pc EXCEPT ![t] = "idle"] /\ Clear(t) /\ UNCHANGED <<cell, ver>>
Reset(t) == /\ pc[t] = "idle" /\ cell' \in Int
            /\ ver' = ver + 1 /\ UNCHANGED <<pc, old, seen, tmp>>

Next == \E t \in Threads : Snap(t) \/ Fn(t) \/ FnFails(t) \/ Commit(t) \/ Retry(t) \/ Reset(t)
Spec == Init /\ [][Next]_vars

TypeOK == /\ cell \in Int /\ ver \in Nat
          /\ pc \in [Threads -> {"idle", "fn", "commit"}]
          /\ old \in [Threads -> Int] /\ seen \in [Threads -> Nat] /\ tmp \in [Threads -> Int]

\* a snapshot is never from the future, and while its version is current its value is the cell
SnapshotsCurrent == \A t \in Threads : pc[t] # "idle" => (seen[t] <= ver /\ (seen[t] = ver => old[t] = cell))
Inv == TypeOK /\ SnapshotsCurrent

\* no lost update: whenever the cell changes by a commit, the value the function was applied to is the current one
NoLostUpdateStep == \A t \in Threads : Commit(t) => old[t] = cell
\* the version counts the installs: it never decreases
VersionMonotone == ver' >= ver
=============================================================================
