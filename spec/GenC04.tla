------------------------------- MODULE GenC04 -------------------------------
(***************************************************************************)
(* C04 generator: the space of ASTs, well-formed or not.                   *)
(*  Mode "forms":   every special-form head (and application shapes) with  *)
(*                  every operand tuple of length 0..MaxAr over a pool of  *)
(*                  operand kinds chosen to hit every unchecked index and  *)
(*                  type assertion (nil, atoms, &, empty/one-element       *)
(*                  lists, parameter vectors with misplaced &, non-symbol  *)
(*                  parameters, map, catch/finally clauses of every arity, *)
(*                  (unquote)/(splice-unquote) without operand ...).       *)
(*  Mode "nested":  one level of nesting: operand tuples inside try / fn   *)
(*                  parameter lists / quasiquote templates / let bindings. *)
(*  Mode "builtins": every builtin name the harness found in the loaded    *)
(*                  environment x argument tuples over value kinds.        *)
(* The definition layer classifies each AST (value / error / malformed =   *)
(* "unspec"); the property judged on the real code is: no Go panic, and    *)
(* (try AST (catch e :caught)) yields a value.                             *)
(***************************************************************************)
EXTENDS Def, Json, IOUtils

CONSTANTS Mode, MaxAr, PoolN

Heads == <<"def", "let", "quote", "quasiquote", "quasiquoteexpand", "defmacro", "macroexpand", "try", "do", "if", "fn",
           "catch", "finally", "unquote", "splice-unquote", "throw", "eval", "apply", "swap!">>

PoolText == <<"nil", "1", "x", "(1)", "[x]", "()", "&", "[a &]", "(catch e 1)", "(unquote)", "[1]", "(fn)",
              "\"s\"", ":k", "[x 1]", "[&]", "{:a 1}", "(catch)", "(catch e)", "(finally)", "(splice-unquote)",
              "[a & b]", "(finally 1)", "[& &]", "(fn [x] x)", "(catch 1 2)", "((fn [a &] a) 1)", "(quasiquote (unquote))",
              "[x y]", "(x)", "(quote)", "{:a (unquote)}", "[catch e 1]", "[finally 1]">>
Pool == [k \in 1..Len(PoolText) |-> Parse(PoolText[k])]
NP == IF PoolN > 0 /\ PoolN < Len(PoolText) THEN PoolN ELSE Len(PoolText)

\* nesting templates: operands land inside another construct
Nest == <<"(try _1 _2)", "(try 1 (catch _1 _2))", "(try (throw 1) (catch _1 _2) (finally _3))", "((fn _1 _2) _3)",
          "((fn [a & b] a) _1)", "(quasiquote (_1 _2))", "(quasiquote [_1 _2])", "(quasiquote (1 (splice-unquote _1) _2))",
          "(let [_1 _2] _3)", "(let (_1 _2 _3) 1)", "(do (defmacro m _1) (m _2))", "(do (defmacro m (fn _1 _2)) (m _3))",
          "(do (def f (fn _1 _2)) (f _3))", "(map (fn _1 _2) [_3])", "(apply (fn _1 _2) _3)", "(if _1 _2 _3 1)",
          "(macroexpand (_1 _2))", "(eval _1 _2)", "(try _1 (catch e _2) (finally _3) 1)", "(def _1 _2 _3)",
          "(swap! (atom 1) (fn _1 _2) _3)", "(try (try _1 (finally _2)) (catch e _3))",
          "(do (defmacro m (fn [& r] _1)) (m))", "(do (defmacro m (fn [a] a)) (m _1 _2))",
          \* functions that went through with-meta, used as macro / called / mapped / applied
          "(do (defmacro m (with-meta (fn [a] a) _1)) (m _2))", "(do (def f (with-meta (fn [a] a) _1)) (f _2) (map f [_3]))",
          "(do (defmacro m (with-meta (fn [& r] _1) {:d 1})) (m _2 _3))", "((with-meta (fn _1 _2) {:d 1}) _3)",
          \* a handler that ends in a call that cannot bind its arguments, with a finally body that looks names up
          "(try (throw 1) (catch e ((fn [a b] a) _1)) (finally (list _2 _3)))", "(try _1 (catch e ((fn [a & ] a))) (finally _2 _3))",
          \* functions and macros WITHOUT a body, called with every number of arguments
          "((fn _1) _2 _3)", "((fn _1))", "((fn _1) _2)", "(do (def f (fn _1)) (f _2 _3) (f))", "(do (defmacro m (fn _1)) (m _2 _3))",
          "(apply (fn _1) _2 _3)">>
NestT == [k \in 1..Len(Nest) |-> Parse(Nest[k])]

Values == <<"nil", "1", "\"s\"", ":k", "'x", "()", "[1]", "{:a 1}", "#{:a}", "inc", "(atom 1)", "-1", "'(1 2)", "[[1]]">>
ValPool == [k \in 1..Len(Values) |-> Parse(Values[k])]
BuiltinList == IF Mode = "builtins" THEN ndJsonDeserialize(IOEnv.VERIF_BUILTINS) ELSE <<>>

ASSUME InitRegisters
ASSUME TLCSet(3, Norm(Pool))
ASSUME TLCSet(4, Norm(NestT))
ASSUME TLCSet(5, Norm(ValPool))
ASSUME TLCSet(6, Norm(BuiltinList))

RECURSIVE Pow(_, _)
Pow(b, e) == IF e = 0 THEN 1 ELSE b * Pow(b, e - 1)

HoleIdx(s) == CASE s = "_1" -> 1 [] s = "_2" -> 2 [] s = "_3" -> 3 [] OTHER -> 0
RECURSIVE Subst(_, _)
Subst(t, args) ==
  IF t.t = "sym" /\ HoleIdx(t.s) # 0 THEN args[HoleIdx(t.s)]
  ELSE IF t.t \in {"list", "vec"} THEN [t EXCEPT !.xs = [k \in 1..Len(t.xs) |-> Subst(t.xs[k], args)]]
  ELSE IF t.t = "map" THEN [t EXCEPT !.m = [k \in DOMAIN t.m |-> Subst(t.m[k], args)]]
  ELSE t

VARIABLES h, ar, idx, ph
vars == <<h, ar, idx, ph>>
NB == Len(TLCGet(6))
Init == /\ ph = 0
        /\ CASE Mode = "forms" -> h \in 1..Len(Heads) /\ ar \in 0..MaxAr /\ idx \in 0..(Pow(NP, ar) - 1)
             [] Mode = "nested" -> h \in 1..Len(Nest) /\ ar = 3 /\ idx \in 0..(Pow(NP, 3) - 1)
             [] Mode = "builtins" -> h \in 1..NB /\ ar \in 0..MaxAr /\ idx \in 0..(Pow(Len(Values), ar) - 1)

Ast == LET pool == IF Mode = "builtins" THEN TLCGet(5) ELSE TLCGet(3)
           base == IF Mode = "builtins" THEN Len(Values) ELSE NP
           ops == [k \in 1..ar |-> pool[((idx \div Pow(base, k - 1)) % base) + 1]]
       IN CASE Mode = "forms" -> ListV(<<SymV(Heads[h])>> \o ops)
            [] Mode = "nested" -> Subst(TLCGet(4)[h], ops)
            [] Mode = "builtins" -> ListV(<<SymV(TLCGet(6)[h].name)>> \o ops)

Next == /\ ph = 0 /\ ph' = 1 /\ UNCHANGED <<h, ar, idx>>
        /\ LET a == Ast
               r == IF Mode = "builtins" /\ TLCGet(6)[h].name \notin BuiltinNames THEN R("unspec", NilV, Base) ELSE Run(<<a>>)
               c == [kind |-> "ast", tag |-> (IF Mode = "forms" THEN Heads[h] ELSE IF Mode = "nested" THEN Nest[h] ELSE TLCGet(6)[h].name),
                     src |-> PrStr(a), forms |-> <<a>>, allow |-> Outcome(r, {})]
           IN PrintT("CASE " \o ToJson(c))
Spec == Init /\ [][Next]_vars
=============================================================================
