------------------------------- MODULE GenC08 -------------------------------
(***************************************************************************)
(* C08: tail calls use no host stack.  The definition layer carries the    *)
(* tail-call discipline (Def.tla: st.depth): a form in tail position is    *)
(* evaluated at the same depth, any other sub-evaluation one level deeper. *)
(* Generator: every LOOP SHAPE obtained by nesting up to MaxNest of the     *)
(* tail-position constructs (fn body last form with leading forms, do,     *)
(* let, both if branches, cond, and, or, immediately applied lambda, ->),   *)
(* optionally with ONE non-tail construct inserted (the controls, which    *)
(* must GROW), with the recursion spread over 1..3 functions.  Each loop   *)
(* calls the probe (depth! n) at the head of every iteration; the model    *)
(* runs Iter iterations and predicts the SIGN of every depth difference.   *)
(***************************************************************************)
EXTENDS Def, Enum, Json

CONSTANTS MaxNest, Iter

\* tail constructs: _1 is in tail position
TailT == <<"(do 1 _1)", "(let [q n] _1)", "(if true _1 :no)", "(if false :no _1)", "(cond false 1 true _1)",
           "(and true _1)", "(or false _1)", "((fn [] _1))", "(let [] 1 _1)", "(do _1)", "(-> _1)", "(or _1)">>
\* controls: _1 is NOT in tail position
NonTailT == <<"(+ 0 _1)", "(do _1 nil)", "(let [r _1] r)", "(first (list _1))", "(try _1)", "(if _1 :yes :no)",
              "(and _1 true)", "(or _1 false)", "(identity _1)", "(apply identity (list _1))", "(try (throw 1) (catch e 1) (finally _1))">>
TailP == [k \in 1..Len(TailT) |-> Parse(TailT[k])]
NonTailP == [k \in 1..Len(NonTailT) |-> Parse(NonTailT[k])]
NT == Len(TailT)

ASSUME InitRegisters
ASSUME TLCSet(3, Norm(TailP))
ASSUME TLCSet(4, Norm(NonTailP))

RECURSIVE Pow(_, _)
Pow(b, e) == IF e = 0 THEN 1 ELSE b * Pow(b, e - 1)

\* nest the constructs chosen by the digits of idx around `inner`; position ctl (1..nest, 0 = none)
\* is replaced by the non-tail construct number c
RECURSIVE Nest(_, _, _, _, _, _)
Nest(level, nest, idx, ctl, c, inner) ==
  IF level > nest THEN inner
  ELSE LET tpl == IF level = ctl THEN TLCGet(4)[c] ELSE TLCGet(3)[((idx \div Pow(NT, level - 1)) % NT) + 1]
       IN Subst(tpl, <<Nest(level + 1, nest, idx, ctl, c, inner)>>)

FnName(j) == "lp" \o ToString(j)
\* k functions calling each other in a ring
Program(nest, idx, ctl, c, k) ==
  [j \in 1..k |->
     LET next == ListV(<<SymV(FnName((j % k) + 1)), ListV(<<SymV("-"), SymV("n"), IntV(1)>>)>>)
         body == ListV(<<SymV("if"), ListV(<<SymV("<"), SymV("n"), IntV(1)>>), KwV("done"), Nest(1, nest, idx, ctl, c, next)>>)
     IN ListV(<<SymV("def"), SymV(FnName(j)),
                ListV(<<SymV("fn"), VecV(<<SymV("n")>>), ListV(<<SymV("depth!"), SymV("n")>>), body>>)>>)]

VARIABLES nest, idx, ctl, c, k, ph
vars == <<nest, idx, ctl, c, k, ph>>
Init == /\ ph = 0 /\ nest \in 1..MaxNest /\ idx \in 0..(Pow(NT, nest) - 1) /\ k \in 1..3
        /\ \/ ctl = 0 /\ c = 1
           \/ ctl \in 1..nest /\ c \in 1..Len(NonTailT) /\ k = 1

Next == /\ ph = 0 /\ ph' = 1 /\ UNCHANGED <<nest, idx, ctl, c, k>>
        /\ LET defs == Program(nest, idx, ctl, c, k)
               call == ListV(<<SymV("lp1"), IntV(Iter)>>)
               r == Run(defs \o <<call>>)
               o == Outcome(r, {})
               constant == \A i, j \in 1..Len(o.depths) : o.depths[i] = o.depths[j]
               cs == [kind |-> "prog", tag |-> IF ctl = 0 THEN "tail" ELSE "control:" \o NonTailT[c],
                      src |-> PrStr(defs[1]) \o (IF k > 1 THEN " ... x" \o ToString(k) ELSE ""),
                      forms |-> defs \o <<call>>, loopdefs |-> defs, allow |-> o,
                      model_constant |-> IF constant THEN 1 ELSE 0]
           IN /\ Assert(ctl = 0 => constant, <<"model: tail loop is not constant", PrStr(defs[1])>>)
              /\ Assert(ctl # 0 => ~constant, <<"model: control does not grow", PrStr(defs[1])>>)
              /\ PrintT("CASE " \o ToJson(cs))
Spec == Init /\ [][Next]_vars
=============================================================================
