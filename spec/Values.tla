------------------------------- MODULE Values -------------------------------
(***************************************************************************)
(* The value universe of jig/lisp as ONE uniform record shape, so that TLC *)
(* can compare, put in sets and serialise any two values.                  *)
(*                                                                         *)
(*   t  : kind   "nil" "bool" "int" "str" "kw" "sym" "list" "vec" "map"    *)
(*               "set" "fn" "bfn" "atom" "fut" "err"                       *)
(*   i  : integer payload (int value, 0/1 for bool, scope id of a closure, *)
(*        heap id of an atom)                                              *)
(*   s  : string payload (string/keyword/symbol text, builtin name,        *)
(*        "macro" flag of a closure, error class)                          *)
(*   xs : element sequence (list/vector elements; <<params, body...>> of   *)
(*        a closure; <<payload>> of a thrown error object)                 *)
(*   m  : function STRING -> Node (map entries; set members map to Nil).   *)
(*        Keys carry the IMPLEMENTATION's encoding: a keyword key :a is    *)
(*        the string "ʞa" (U+029E prefix); C06/C14 are about exactly that. *)
(***************************************************************************)
EXTENDS Integers, Sequences, FiniteSets, TLC

\* Values kept in TLC registers are shared by all worker threads; comparing a value with itself
\* makes TLC normalise it (deeply) once, in the main thread, instead of lazily and concurrently.
Norm(v) == IF v = v THEN v ELSE v

Mk(t, i, s, xs, m) == [t |-> t, i |-> i, s |-> s, xs |-> xs, m |-> m]

NoMap == <<>>

NilV        == Mk("nil", 0, "", <<>>, NoMap)
BoolV(b)    == Mk("bool", IF b THEN 1 ELSE 0, "", <<>>, NoMap)
TrueV       == BoolV(TRUE)
FalseV      == BoolV(FALSE)
IntV(n)     == Mk("int", n, "", <<>>, NoMap)
\* an integer of 10..18 digits (beyond TLC's 32-bit integers): carried as its decimal text, i = 0
BigIntV(s)  == Mk("int", 0, s, <<>>, NoMap)
IsBig(v)    == v.t = "int" /\ v.s # ""
StrV(s)     == Mk("str", 0, s, <<>>, NoMap)
KwV(s)      == Mk("kw", 0, s, <<>>, NoMap)
SymV(s)     == Mk("sym", 0, s, <<>>, NoMap)
ListV(xs)   == Mk("list", 0, "", xs, NoMap)
VecV(xs)    == Mk("vec", 0, "", xs, NoMap)
MapV(m)     == Mk("map", 0, "", <<>>, m)
SetV(m)     == Mk("set", 0, "", <<>>, m)
BfnV(name)  == Mk("bfn", 0, name, <<>>, NoMap)
AtomV(id)   == Mk("atom", id, "", <<>>, NoMap)
\* closure: i = defining scope id, s = "" | "macro", xs = <<params, body1, ...>>
FnV(env, params, body) == Mk("fn", env, "", <<params>> \o body, NoMap)
\* an opaque host (Go) error object of the given class, as seen by a handler
ErrV(class) == Mk("err", 0, class, <<>>, NoMap)

KwMark == "ʞ"

IsSeq(v)  == v.t \in {"list", "vec"}
IsColl(v) == v.t \in {"list", "vec", "map", "set"}
Truthy(v) == ~(v.t = "nil" \/ (v.t = "bool" /\ v.i = 0))

\* map / set key of a string or keyword value, in the implementation's encoding
IsKeyable(v) == v.t \in {"str", "kw"}
KeyOf(v) == IF v.t = "kw" THEN KwMark \o v.s ELSE v.s
\* the value a key stands for (what `keys` returns, what printing a key shows)
KeyVal(k) == IF Len(k) >= 1 /\ SubSeq(k, 1, 1) = KwMark
             THEN KwV(SubSeq(k, 2, Len(k))) ELSE StrV(k)

Keys(m) == DOMAIN m
MapPut(m, k, v) == [x \in (DOMAIN m) \cup {k} |-> IF x = k THEN v ELSE m[x]]
MapDel(m, k) == [x \in (DOMAIN m) \ {k} |-> m[x]]
MapMerge(a, b) == [x \in (DOMAIN a) \cup (DOMAIN b) |-> IF x \in DOMAIN b THEN b[x] ELSE a[x]]
EmptyMap == <<>>

(***************************************************************************)
(* Structural equality: the DEFINITION of `=` (C14) and the comparison the *)
(* conformance harness uses.  list ~ vector; maps by key set then values;  *)
(* sets by members; kinds never mixed otherwise.                           *)
(***************************************************************************)
RECURSIVE StructEq(_, _)
StructEq(a, b) ==
  IF IsSeq(a) /\ IsSeq(b) THEN
       /\ Len(a.xs) = Len(b.xs)
       /\ \A k \in 1..Len(a.xs) : StructEq(a.xs[k], b.xs[k])
  ELSE IF a.t # b.t THEN FALSE
  ELSE IF a.t = "map" THEN
       /\ DOMAIN a.m = DOMAIN b.m
       /\ \A k \in DOMAIN a.m : StructEq(a.m[k], b.m[k])
  ELSE IF a.t = "set" THEN DOMAIN a.m = DOMAIN b.m
  ELSE IF a.t \in {"nil"} THEN TRUE
  ELSE IF a.t = "bool" THEN a.i = b.i
  ELSE IF a.t = "int" THEN a.i = b.i /\ a.s = b.s
  ELSE IF a.t \in {"str", "kw", "sym"} THEN a.s = b.s
  ELSE a = b

\* Data values (everything C06/C14 quantify over)
RECURSIVE IsData(_)
IsData(v) ==
  \/ v.t \in {"nil", "bool", "int", "str", "kw", "sym"}
  \/ v.t \in {"list", "vec"} /\ \A k \in 1..Len(v.xs) : IsData(v.xs[k])
  \/ v.t = "map" /\ \A k \in DOMAIN v.m : IsData(v.m[k])
  \/ v.t = "set"

\* sequence helpers
SeqMap(F(_), s) == [k \in 1..Len(s) |-> F(s[k])]
Rev(s) == [k \in 1..Len(s) |-> s[Len(s) + 1 - k]]
Take(s, n) == SubSeq(s, 1, IF n > Len(s) THEN Len(s) ELSE IF n < 0 THEN 0 ELSE n)
Drop(s, n) == SubSeq(s, (IF n < 0 THEN 0 ELSE n) + 1, Len(s))
RECURSIVE Flatten(_)
Flatten(ss) == IF ss = <<>> THEN <<>> ELSE Head(ss) \o Flatten(Tail(ss))

\* deterministic enumeration of a finite set of strings (order is arbitrary but fixed)
RECURSIVE SetToSeq(_)
SetToSeq(S) == IF S = {} THEN <<>>
               ELSE LET x == CHOOSE y \in S : TRUE IN <<x>> \o SetToSeq(S \ {x})
=============================================================================
