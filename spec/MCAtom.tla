------------------------------- MODULE MCAtom -------------------------------
(***************************************************************************)
(* Model-checking instances of AtomImpl: a fixed list of scenarios (which  *)
(* scripts run together), 3 threads, 2 atoms, values modulo 4.             *)
(***************************************************************************)
EXTENDS Integers, Sequences, FiniteSets, TLC

CONSTANTS DesignC, ScenarioId

O(k, a, b, v) == [k |-> k, a |-> a, b |-> b, v |-> v]
Scen == <<
  \* 1: plain contention on one atom: swaps, reset, derefs, a failing swap
  [t \in {1, 2, 3} |-> CASE t = 1 -> <<O("swapinc", 1, 0, 0), O("deref", 1, 0, 0)>>
                         [] t = 2 -> <<O("swapinc", 1, 0, 0), O("reset", 1, 0, 2)>>
                         [] t = 3 -> <<O("deref", 1, 0, 0), O("swapfail", 1, 0, 0)>>],
  \* 2: an update function that reads ANOTHER atom which is being updated
  [t \in {1, 2, 3} |-> CASE t = 1 -> <<O("swapreadother", 1, 2, 0)>>
                         [] t = 2 -> <<O("swapinc", 2, 0, 0), O("reset", 2, 0, 1)>>
                         [] t = 3 -> <<O("deref", 1, 0, 0), O("swapinc", 1, 0, 0)>>],
  \* 3: an update function that reads THE atom being swapped, with a competing writer
  [t \in {1, 2, 3} |-> CASE t = 1 -> <<O("swapreadself", 1, 0, 0)>>
                         [] t = 2 -> <<O("swapinc", 1, 0, 0)>>
                         [] t = 3 -> <<O("deref", 1, 0, 0)>>],
  \* 4: update functions that swap the OTHER atom, crosswise (AB / BA)
  [t \in {1, 2, 3} |-> CASE t = 1 -> <<O("swapswapother", 1, 2, 0)>>
                         [] t = 2 -> <<O("swapswapother", 2, 1, 0)>>
                         [] t = 3 -> <<O("deref", 2, 0, 0)>>],
  \* 5: a mix
  [t \in {1, 2, 3} |-> CASE t = 1 -> <<O("swapswapother", 1, 2, 0), O("deref", 2, 0, 0)>>
                         [] t = 2 -> <<O("swapinc", 2, 0, 0), O("swapreadother", 2, 1, 0)>>
                         [] t = 3 -> <<O("reset", 1, 0, 3), O("swapfail", 2, 0, 0)>>] >>

VARIABLES cell, ver, readers, writer, pending, pc, ip, old, seen, tmp, res
A == INSTANCE AtomImpl WITH Design <- DesignC, Threads <- {1, 2, 3}, Atoms <- {1, 2}, Scripts <- Scen[ScenarioId]

Spec == A!Spec
TypeOK == A!TypeOK
CommitSeesCurrent == A!CommitSeesCurrent
FailedSwapKeepsCell == A!FailedSwapKeepsCell
Termination == A!Termination
RefinesCas1 == A!Cas(1)!Spec
RefinesCas2 == A!Cas(2)!Spec
\* the version counters grow with every retry; bound them for the exhaustive runs
VerBound == \A a \in {1, 2} : ver[a] <= 6
=============================================================================
