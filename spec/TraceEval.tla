------------------------------- MODULE TraceEval -------------------------------
(***************************************************************************)
(* Trace validation of the EVALUATOR: for programs of the three grammars,  *)
(* the real evaluation loop's hook (lisp.VerifLoopTop) recorded, for every *)
(* loop iteration, the form about to be evaluated and the number of live   *)
(* EVAL activations.  The recorded sequence must be exactly the sequence   *)
(* of loop-top steps of the small-step machine Eval.tla (same forms, same  *)
(* activation depth): tail positions loop, everything else recurses.       *)
(* One TLC state per recorded program, validated in parallel.              *)
(***************************************************************************)
EXTENDS Eval, Enum, Grammars, Json, IOUtils

CONSTANT Which
G == CASE Which = "c01" -> C01G [] Which = "c03" -> C03G [] OTHER -> C12GM
CtxForms == CASE Which = "c01" -> C01CtxForms [] Which = "c03" -> C03CtxForms [] OTHER -> C12CtxForms

ASSUME InitRegisters
ASSUME SetContext(CtxForms)
ASSUME TLCSet(3, Norm(G))
ASSUME TLCSet(5, Norm(ndJsonDeserialize(IOEnv.VERIF_TRACE)))     \* records [sz, idx, tops: Seq([a, d])]
Trace == TLCGet(5)
ASSUME TLCSet(4, Norm(CountTab(G, 6, <<>>)))

RECURSIVE StripG(_)
\* generated symbols G__n are compared up to their number
StripG(a) == IF a.t = "sym" /\ Len(a.s) >= 4 /\ SubSeq(a.s, 1, 3) = "G__" THEN SymV("G__#")
             ELSE IF a.t \in {"list", "vec"} THEN [a EXCEPT !.xs = [k \in 1..Len(a.xs) |-> StripG(a.xs[k])]]
             ELSE IF a.t = "map" THEN [a EXCEPT !.m = [k \in DOMAIN a.m |-> StripG(a.m[k])]]
             ELSE a

VARIABLES l, ph
Init == ph = 0 /\ l \in 1..Len(Trace)
Next == /\ ph = 0 /\ ph' = 1 /\ l' = l
        /\ LET rec == Trace[l]
               prog == Decode(TLCGet(3), TLCGet(4), rec.sz, rec.idx)
               c == RunForms(<<prog>>, 1, CtxBase, <<>>)
               n == Len(c.tops)
               m == Len(rec.tops)
               firstDiff == CHOOSE j \in 1..(IF n < m THEN n ELSE m) + 1 :
                              /\ (j <= n /\ j <= m => StripG(AbstractV(c.tops[j][1], c.st.atoms)) # rec.tops[j].a \/ c.tops[j][2] # rec.tops[j].d)
                              /\ \A i \in 1..(j - 1) : StripG(AbstractV(c.tops[i][1], c.st.atoms)) = rec.tops[i].a /\ c.tops[i][2] = rec.tops[i].d
           IN IF c.v.k \in {"unspec", "div"} THEN PrintT("ABSTAIN " \o ToString(l))
              ELSE IF n = m /\ firstDiff = n + 1 THEN TRUE
              ELSE PrintT("REJECT " \o ToString(l) \o " " \o PrStr(prog) \o " : loop iteration " \o ToString(firstDiff) \o
                          " machine " \o (IF firstDiff <= n THEN PrStr(c.tops[firstDiff][1]) \o " @" \o ToString(c.tops[firstDiff][2]) ELSE "(end)") \o
                          " real " \o (IF firstDiff <= m THEN PrStr(rec.tops[firstDiff].a) \o " @" \o ToString(rec.tops[firstDiff].d) ELSE "(end)"))
Spec == Init /\ [][Next]_<<l, ph>>
=============================================================================
