------------------------------- MODULE GenProg -------------------------------
(***************************************************************************)
(* Shared shape of the program generators (C03, C12, ...): a grammar       *)
(* (Enum), a context, a wrapper applied to every enumerated term, and the  *)
(* definition layer computing the allowed outcome.                         *)
(* A model instantiates it by defining G, CtxText, Wrap(_), Globals, Name  *)
(* and extending this module.                                              *)
(***************************************************************************)
EXTENDS Def, Enum, Json, Randomization

HeadTag(e) == IF e.t = "list" /\ Len(e.xs) >= 1 THEN (IF e.xs[1].t = "sym" THEN e.xs[1].s ELSE "call") ELSE e.t

\* first special/defining symbol found depth-first (used as finding signature)
RECURSIVE Heads(_)
Heads(e) == IF e.t = "list" /\ Len(e.xs) >= 1
            THEN (IF e.xs[1].t = "sym" THEN {e.xs[1].s} ELSE {}) \cup UNION {Heads(e.xs[k]) : k \in 1..Len(e.xs)}
            ELSE IF e.t = "vec" THEN UNION {Heads(e.xs[k]) : k \in 1..Len(e.xs)} ELSE {}
=============================================================================
