------------------------------ MODULE GenC02b ------------------------------
(***************************************************************************)
(* C02, values held by closures, atoms and rest-parameter lists: programs  *)
(* in which a value is captured / stored, then something is derived from   *)
(* it (or the machinery that produced it runs again), then the captured /  *)
(* stored value is looked at again.  The definition layer gives the        *)
(* outcome (Def.SwapLoop: swap! retries when the atom was written while    *)
(* the update function ran, so the arguments of the dropped attempt stay   *)
(* what they were).  Each program is replayed from its forms and from its  *)
(* text.                                                                   *)
(***************************************************************************)
EXTENDS Def, Json

Progs == <<
  \* the argument list of a dropped swap! attempt, kept by the update function
  "(def a (atom 0)) (def keep (atom [])) (def once (atom true)) " \o
  "(swap! a (fn [& all] (swap! keep conj [all (first all)]) (if @once (do (reset! once false) (reset! a 10))) (+ (first all) 1)) :x) " \o
  "(trace! @keep) (trace! @a)",
  "(def a (atom 5)) (def keep (atom [])) (def n (atom 0)) " \o
  "(swap! a (fn [v & more] (swap! keep conj more) (swap! n inc) (if (< @n 3) (reset! a (+ v 100))) (count more)) :p :q) " \o
  "(trace! @keep) (trace! @a) (trace! @n)",
  \* a vector captured by a closure, then extended
  "(def v [1 2 3]) (def f (fn [] v)) (def w (conj v 4)) (def u (conj v 5)) (trace! (list (f) w u))",
  \* rest lists kept and extended
  "(def g (fn [& r] r)) (def r1 (g 1 2 3)) (def r2 (conj r1 0)) (def r3 (concat r1 [9])) (def r4 (concat r1 [8])) (trace! (list r1 r2 r3 r4))",
  "(def ks (atom [])) (map (fn [& r] (swap! ks conj r)) [1 2 3]) (trace! @ks)",
  "(def ks (atom [])) (def h (fn [a & r] (swap! ks conj r) a)) (h 1 2 3) (h 4 5 6) (apply h 7 [8 9]) (trace! @ks)",
  "(def args (list 1 2)) (def g (fn [& r] r)) (def r1 (apply g args)) (def r2 (concat r1 [3])) (def r3 (concat args [4])) (trace! (list args r1 r2 r3))",
  \* values held in atoms
  "(def a (atom [1 2 3])) (def before @a) (swap! a conj 4) (def mid @a) (swap! a conj 5) (trace! (list before mid @a))",
  "(def a (atom [])) (swap! a conj 1 2) (def s1 @a) (swap! a conj 3) (swap! a concat [4]) (trace! (list s1 @a))",
  "(def a (atom {:k [1 2 3]})) (def old @a) (swap! a update :k conj 4) (swap! a assoc :j 1) (trace! (list old @a))",
  \* quasiquote splices of a value a closure holds
  "(def xs '(1 2 3)) (def f (fn [] xs)) (def q1 `(~@xs 4)) (def q2 `(~@xs 5)) (def q3 `((~@xs 6) (~@xs 7))) (trace! (list (f) q1 q2 q3))",
  \* a macro keeping its operand list
  "(defmacro keepm (fn [& ops] (list 'quote ops))) (def k1 (keepm a b c)) (def k2 (concat k1 '(d))) (def k3 (conj k1 'z)) (trace! (list k1 k2 k3))",
  \* a let-bound value, derived from in the body, read again
  "(trace! (let [v [1 2 3] w (conj v 4) x (concat v [5]) y (assoc v 0 9)] (list v w x y)))",
  \* a catch variable named like a binding a closure reads
  "(def err [1 2 3]) (def rd (fn [] err)) (def h (try (throw {:code 7}) (catch err (get err :code)))) (trace! (list h err (rd)))",
  "(trace! (let [e [1 2] g (fn [] e) r (try (throw :x) (catch e e))] (list r e (g))))",
  "(def mk (fn [v] (fn [] v))) (def c1 (mk [1 2 3])) (def c2 (mk (c1))) (def d (conj (c1) 4)) (def e (concat (c2) [5])) (trace! (list (c1) (c2) d e))",
  \* CODE held as data: quoted forms bound with def / stored in a map, evaluated with eval (several times), looked at again
  "(def x 7) (def code '`(a ~x ~@(list x x))) (def r1 (eval code)) (def r2 (eval code)) (trace! (list r1 r2 code (first code)))",
  "(def forms {:q '`[y ~(+ 1 2)] :l '(let [z 1] (if z `(~z) nil)) :t '(try (throw 1) (catch e `(~e)))}) " \o
  "(def rs (list (eval (get forms :q)) (eval (get forms :l)) (eval (get forms :t)) (eval (get forms :l)))) (trace! rs) (trace! forms)",
  "(defmacro peek (fn [f] (list 'quote (list (first f) (count f))))) (def use (fn [] (peek `(a b)))) (trace! (list (use) (use) (use)))",
  "(def body '(do (def k 1) (cond false 1 true (-> k inc)) (and k (or nil k)))) (trace! (list (eval body) (eval body) body))" >>

ASSUME InitRegisters

VARIABLES i, ph
Init == ph = 0 /\ i \in 1..Len(Progs)
Next == /\ ph = 0 /\ ph' = 1 /\ UNCHANGED i
        /\ LET forms == ReadAll(Progs[i])
               r == Run(forms)
               c == [kind |-> "prog", tag |-> "held", forms |-> forms, text |-> Progs[i], src |-> Progs[i],
                     allow |-> Outcome(r, {})]
           IN PrintT("CASE " \o ToJson(c))
Spec == Init /\ [][Next]_<<i, ph>>
=============================================================================
