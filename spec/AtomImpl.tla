------------------------------ MODULE AtomImpl ------------------------------
(***************************************************************************)
(* C09: atoms.  Implementation-shaped model of lib/concurrent: an Atom is  *)
(* a Go sync.RWMutex plus a cell (plus, in the "cas" design, a version     *)
(* counter).  Threads run scripts of deref / reset! / swap! whose update   *)
(* function may be pure, may fail, may read another atom or the very atom  *)
(* being swapped, or may swap ANOTHER atom.                                *)
(*                                                                         *)
(* Two designs of swap!, selected by the constant Design:                  *)
(*   "lockheld"  the write lock is held across the update function         *)
(*               (the code at the pinned commit)                           *)
(*   "cas"       read cell+version under the read lock, run the function   *)
(*               with NO lock held, take the write lock, install iff the   *)
(*               version is unchanged, otherwise retry (the repaired code) *)
(*                                                                         *)
(* Go's RWMutex: any number of readers or one writer; a PENDING writer     *)
(* blocks new readers (this is what turns a nested deref into a deadlock). *)
(*                                                                         *)
(* The abstract atom (AtomAbs) is the cell itself: operations take effect  *)
(* atomically at their linearization actions (ReadCell of a deref, SetCell *)
(* of reset!, Commit of swap!).  Checked:                                  *)
(*   CommitSeesCurrent  a swap! installs f(v) only if v is still the cell  *)
(*                      (no lost update)            [action property]      *)
(*   FailedSwapKeepsCell                            [action property]      *)
(*   deadlock freedom   TLC deadlock check (a finished system stutters)    *)
(*   Termination        every script finishes under weak fairness          *)
(***************************************************************************)
EXTENDS Integers, Sequences, FiniteSets, TLC

CONSTANTS Design,     \* "lockheld" | "cas"
          Threads,    \* set of thread ids
          Atoms,      \* set of atom ids
          Scripts     \* [Threads -> Seq(op)], op = [k, a, b, v]
                      \*   k: "deref" | "reset" | "swapinc" | "swapfail" | "swapreadother" | "swapreadself" | "swapswapother"

VARIABLES cell,       \* [Atoms -> Int]
          ver,        \* [Atoms -> Nat]   version counter ("cas" design)
          readers,    \* [Atoms -> Nat]   goroutines holding the read lock
          writer,     \* [Atoms -> Threads \cup {0}]
          pending,    \* [Atoms -> SUBSET Threads] goroutines blocked in Lock()
          pc,         \* [Threads -> label]
          ip,         \* [Threads -> Nat]  index of the current op in the script
          old,        \* [Threads -> Int]  value the update function is applied to
          seen,       \* [Threads -> Nat]  version read with it ("cas")
          tmp,        \* [Threads -> Int]  what the update function read / computed
          res         \* [Threads -> Seq(Int)] results returned so far (-1 = error)
vars == <<cell, ver, readers, writer, pending, pc, ip, old, seen, tmp, res>>

Op(t) == Scripts[t][ip[t]]
Done(t) == ip[t] > Len(Scripts[t])
Mod(n) == n % 4

Init == /\ cell = [a \in Atoms |-> 0] /\ ver = [a \in Atoms |-> 0]
        /\ readers = [a \in Atoms |-> 0] /\ writer = [a \in Atoms |-> 0] /\ pending = [a \in Atoms |-> {}]
        /\ pc = [t \in Threads |-> "idle"] /\ ip = [t \in Threads |-> 1]
        /\ old = [t \in Threads |-> 0] /\ seen = [t \in Threads |-> 0] /\ tmp = [t \in Threads |-> 0]
        /\ res = [t \in Threads |-> <<>>]

\* ------------------------------------------------------------ RWMutex
CanRLock(a) == writer[a] = 0 /\ pending[a] = {}
RLock(t, a, next) == /\ CanRLock(a) /\ readers' = [readers EXCEPT ![a] = @ + 1]
                     /\ pc' = [pc EXCEPT ![t] = next] /\ UNCHANGED <<writer, pending>>
RUnlock(a) == readers' = [readers EXCEPT ![a] = @ - 1]
\* Lock(): announce (pending), then acquire when no reader and no writer
LockAnnounce(t, a, next) == /\ pending' = [pending EXCEPT ![a] = @ \cup {t}]
                            /\ pc' = [pc EXCEPT ![t] = next] /\ UNCHANGED <<readers, writer>>
LockAcquire(t, a, next) == /\ t \in pending[a] /\ readers[a] = 0 /\ writer[a] = 0
                           /\ writer' = [writer EXCEPT ![a] = t] /\ pending' = [pending EXCEPT ![a] = @ \ {t}]
                           /\ pc' = [pc EXCEPT ![t] = next] /\ UNCHANGED readers
Unlock(a) == writer' = [writer EXCEPT ![a] = 0]

Finish(t, r) == /\ res' = [res EXCEPT ![t] = Append(@, r)] /\ ip' = [ip EXCEPT ![t] = @ + 1]

\* ------------------------------------------------------------ operations
Start(t) == /\ pc[t] = "idle" /\ ~Done(t)
            /\ pc' = [pc EXCEPT ![t] =
                 CASE Op(t).k = "deref" -> "d_rlock"
                   [] Op(t).k = "reset" -> "r_lock"
                   [] OTHER -> IF Design = "lockheld" THEN "s_lock" ELSE "s_rlock"]
            /\ UNCHANGED <<cell, ver, readers, writer, pending, ip, old, seen, tmp, res>>

\* deref: RLock; read; RUnlock
DerefRLock(t) == pc[t] = "d_rlock" /\ RLock(t, Op(t).a, "d_read") /\ UNCHANGED <<cell, ver, ip, old, seen, tmp, res>>
DerefRead(t) == /\ pc[t] = "d_read" /\ RUnlock(Op(t).a) /\ Finish(t, cell[Op(t).a])
                /\ pc' = [pc EXCEPT ![t] = "idle"] /\ UNCHANGED <<cell, ver, writer, pending, old, seen, tmp>>

\* reset!: Lock; set; Unlock
ResetAnnounce(t) == pc[t] = "r_lock" /\ LockAnnounce(t, Op(t).a, "r_wait") /\ UNCHANGED <<cell, ver, ip, old, seen, tmp, res>>
ResetAcquire(t) == pc[t] = "r_wait" /\ LockAcquire(t, Op(t).a, "r_set") /\ UNCHANGED <<cell, ver, ip, old, seen, tmp, res>>
ResetSet(t) == /\ pc[t] = "r_set" /\ cell' = [cell EXCEPT ![Op(t).a] = Op(t).v] /\ ver' = [ver EXCEPT ![Op(t).a] = @ + 1]
               /\ Unlock(Op(t).a) /\ Finish(t, Op(t).v) /\ pc' = [pc EXCEPT ![t] = "idle"]
               /\ UNCHANGED <<readers, pending, old, seen, tmp>>

\* swap!, first part: get hold of the current value
\*   lockheld: Lock(a) and keep it;   cas: RLock(a), read value+version, RUnlock(a)
SwapAnnounce(t) == pc[t] = "s_lock" /\ LockAnnounce(t, Op(t).a, "s_wait") /\ UNCHANGED <<cell, ver, ip, old, seen, tmp, res>>
SwapAcquire(t) == /\ pc[t] = "s_wait" /\ LockAcquire(t, Op(t).a, "s_fn") /\ old' = [old EXCEPT ![t] = cell[Op(t).a]]
                  /\ UNCHANGED <<cell, ver, ip, seen, tmp, res>>
SwapRLock(t) == pc[t] = "s_rlock" /\ RLock(t, Op(t).a, "s_snap") /\ UNCHANGED <<cell, ver, ip, old, seen, tmp, res>>
SwapSnap(t) == /\ pc[t] = "s_snap" /\ RUnlock(Op(t).a)
               /\ old' = [old EXCEPT ![t] = cell[Op(t).a]] /\ seen' = [seen EXCEPT ![t] = ver[Op(t).a]]
               /\ pc' = [pc EXCEPT ![t] = "s_fn"] /\ UNCHANGED <<cell, ver, writer, pending, ip, tmp, res>>

\* the update function (runs with the write lock held in "lockheld", with no lock in "cas")
Target(t) == IF Op(t).k = "swapreadself" THEN Op(t).a ELSE Op(t).b
FnPure(t) == /\ pc[t] = "s_fn" /\ Op(t).k = "swapinc" /\ tmp' = [tmp EXCEPT ![t] = Mod(old[t] + 1)]
             /\ pc' = [pc EXCEPT ![t] = "s_install"] /\ UNCHANGED <<cell, ver, readers, writer, pending, ip, old, seen, res>>
FnFail(t) == /\ pc[t] = "s_fn" /\ Op(t).k = "swapfail" /\ pc' = [pc EXCEPT ![t] = "s_failed"]
             /\ UNCHANGED <<cell, ver, readers, writer, pending, ip, old, seen, tmp, res>>
\* ... reading an atom inside the function: a nested deref
FnReadRLock(t) == /\ pc[t] = "s_fn" /\ Op(t).k \in {"swapreadother", "swapreadself"}
                  /\ RLock(t, Target(t), "f_read") /\ UNCHANGED <<cell, ver, ip, old, seen, tmp, res>>
FnRead(t) == /\ pc[t] = "f_read" /\ RUnlock(Target(t)) /\ tmp' = [tmp EXCEPT ![t] = Mod(old[t] + cell[Target(t)] + 1)]
             /\ pc' = [pc EXCEPT ![t] = "s_install"] /\ UNCHANGED <<cell, ver, writer, pending, ip, old, seen, res>>
\* ... swapping ANOTHER atom inside the function (a nested swap! inc, same design, abbreviated to its lock protocol)
FnSwapAnnounce(t) == /\ pc[t] = "s_fn" /\ Op(t).k = "swapswapother"
                     /\ LockAnnounce(t, Op(t).b, "f_swait") /\ UNCHANGED <<cell, ver, ip, old, seen, tmp, res>>
FnSwapAcquire(t) == pc[t] = "f_swait" /\ LockAcquire(t, Op(t).b, "f_sset") /\ UNCHANGED <<cell, ver, ip, old, seen, tmp, res>>
FnSwapSet(t) == /\ pc[t] = "f_sset" /\ cell' = [cell EXCEPT ![Op(t).b] = Mod(@ + 1)] /\ ver' = [ver EXCEPT ![Op(t).b] = @ + 1]
                /\ Unlock(Op(t).b) /\ tmp' = [tmp EXCEPT ![t] = Mod(old[t] + 1)]
                /\ pc' = [pc EXCEPT ![t] = "s_install"] /\ UNCHANGED <<readers, pending, ip, old, seen, res>>

\* swap!, last part: install
\*   lockheld: we still hold the lock: set, unlock
InstallHeld(t) == /\ Design = "lockheld" /\ pc[t] = "s_install"
                  /\ cell' = [cell EXCEPT ![Op(t).a] = tmp[t]] /\ ver' = [ver EXCEPT ![Op(t).a] = @ + 1]
                  /\ Unlock(Op(t).a) /\ Finish(t, tmp[t]) /\ pc' = [pc EXCEPT ![t] = "idle"]
                  /\ UNCHANGED <<readers, pending, old, seen, tmp>>
FailedHeld(t) == /\ Design = "lockheld" /\ pc[t] = "s_failed" /\ Unlock(Op(t).a) /\ Finish(t, -1)
                 /\ pc' = [pc EXCEPT ![t] = "idle"] /\ UNCHANGED <<cell, ver, readers, pending, old, seen, tmp>>
\*   cas: Lock; if the version is the one we read: set, else retry from the start
CasAnnounce(t) == /\ Design = "cas" /\ pc[t] = "s_install" /\ LockAnnounce(t, Op(t).a, "c_wait")
                  /\ UNCHANGED <<cell, ver, ip, old, seen, tmp, res>>
CasAcquire(t) == pc[t] = "c_wait" /\ LockAcquire(t, Op(t).a, "c_commit") /\ UNCHANGED <<cell, ver, ip, old, seen, tmp, res>>
CasCommit(t) == /\ pc[t] = "c_commit" /\ ver[Op(t).a] = seen[t]
                /\ cell' = [cell EXCEPT ![Op(t).a] = tmp[t]] /\ ver' = [ver EXCEPT ![Op(t).a] = @ + 1]
                /\ Unlock(Op(t).a) /\ Finish(t, tmp[t]) /\ pc' = [pc EXCEPT ![t] = "idle"]
                /\ UNCHANGED <<readers, pending, old, seen, tmp>>
CasRetry(t) == /\ pc[t] = "c_commit" /\ ver[Op(t).a] # seen[t] /\ Unlock(Op(t).a)
               /\ pc' = [pc EXCEPT ![t] = "s_rlock"] /\ UNCHANGED <<cell, ver, readers, pending, ip, old, seen, tmp, res>>
FailedCas(t) == /\ Design = "cas" /\ pc[t] = "s_failed" /\ Finish(t, -1) /\ pc' = [pc EXCEPT ![t] = "idle"]
                /\ UNCHANGED <<cell, ver, readers, writer, pending, old, seen, tmp>>

Step(t) == \/ Start(t) \/ DerefRLock(t) \/ DerefRead(t) \/ ResetAnnounce(t) \/ ResetAcquire(t) \/ ResetSet(t)
           \/ SwapAnnounce(t) \/ SwapAcquire(t) \/ SwapRLock(t) \/ SwapSnap(t)
           \/ FnPure(t) \/ FnFail(t) \/ FnReadRLock(t) \/ FnRead(t) \/ FnSwapAnnounce(t) \/ FnSwapAcquire(t) \/ FnSwapSet(t)
           \/ InstallHeld(t) \/ FailedHeld(t) \/ CasAnnounce(t) \/ CasAcquire(t) \/ CasCommit(t) \/ CasRetry(t) \/ FailedCas(t)

AllDone == \A t \in Threads : Done(t) /\ pc[t] = "idle"
Next == (\E t \in Threads : Step(t)) \/ (AllDone /\ UNCHANGED vars)
Spec == Init /\ [][Next]_vars /\ \A t \in Threads : WF_vars(Step(t))

\* ------------------------------------------------------------ properties
TypeOK == /\ \A a \in Atoms : readers[a] >= 0 /\ (writer[a] # 0 => readers[a] = 0)
\* a swap! installs f(v) only when v is (still) the cell: no update is lost
CommitSeesCurrent ==
  [][\A t \in Threads : (pc[t] \in {"s_install", "c_commit"} /\ pc'[t] = "idle" /\ ~Done(t))
        => old[t] = cell[Op(t).a]]_vars
\* a failing update function leaves the atom as it was
FailedSwapKeepsCell ==
  [][\A t \in Threads : (pc[t] = "s_failed" /\ pc'[t] = "idle") => cell'[Op(t).a] = cell[Op(t).a]]_vars
Termination == <>AllDone

\* ------------------------------------------------------------ refinement
\* Design "cas" refines, for every atom, the abstract compare-and-set machine AtomCas.tla, whose safety is
\* PROVED for any number of threads in AtomCasProof.tla.  A thread is in an attempt on atom a from its snapshot
\* to its commit / retry / failure; the locks make Snap and Commit atomic.
Active(t, a) == /\ ~Done(t) /\ Op(t).a = a
                /\ pc[t] \in {"s_fn", "f_read", "f_swait", "f_sset", "s_failed", "s_install", "c_wait", "c_commit"}
AbsPc(t, a) == IF ~Active(t, a) THEN "idle"
               ELSE IF pc[t] \in {"s_install", "c_wait", "c_commit"} THEN "commit" ELSE "fn"
Cas(a) == INSTANCE AtomCas WITH cell <- cell[a], ver <- ver[a],
                                pc <- [t \in Threads |-> AbsPc(t, a)],
                                old <- [t \in Threads |-> IF Active(t, a) THEN old[t] ELSE 0],
                                seen <- [t \in Threads |-> IF Active(t, a) THEN seen[t] ELSE 0],
                                tmp <- [t \in Threads |-> IF AbsPc(t, a) = "commit" THEN tmp[t] ELSE 0]
=============================================================================
