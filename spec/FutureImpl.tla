----------------------------- MODULE FutureImpl -----------------------------
(***************************************************************************)
(* C10: futures.  Implementation-shaped model of lib/concurrent.Future:    *)
(* a body goroutine, two 1-slot channels (value / error), two flags (done, *)
(* cancelled), a cancel function for the body's context.                   *)
(*                                                                         *)
(*   body:    Start -> Eval -> ... -> Finish                               *)
(*   deref:   Take (receive from the slot | caller's context ends)         *)
(*            -> Redeposit -> Return                                       *)
(*   cancel:  Check (read done) -> [Mark: cancelled, done := true; cancel  *)
(*            the body's context] -> Return cancelled                      *)
(*   done? / cancelled?: read the flag                                     *)
(*                                                                         *)
(* Two designs (constant Design):                                          *)
(*   "orig"   the body DELIVERS the outcome and then sets done (deferred); *)
(*            cancel's check and mark are separate, unsynchronised steps   *)
(*   "fixed"  the body sets done under the future's mutex BEFORE it        *)
(*            delivers; cancel's check-and-mark is one critical section    *)
(*            under the same mutex; predicates read under it               *)
(*                                                                         *)
(* Properties (P1..P7 of the design):                                      *)
(*   P1 BodyOnce            the body is evaluated exactly once             *)
(*   P2 SameOutcome         all derefs that return, return the same        *)
(*   P3 FlagsMonotone       done? / cancelled? never go back to false      *)
(*   P4 DerefImpliesDone    once a deref has returned, done? is true       *)
(*   P5 CancelAfterCompletionIsFalse  cancel on a future that completed    *)
(*                          without having been cancelled returns false    *)
(*                          and changes nothing                            *)
(*   P6 CancelWhileRunning  returns true, cancels the body's context,      *)
(*                          cancelled? true from then on                   *)
(*   P7 no thread blocks forever on the slots (deadlock freedom; a deref   *)
(*      whose caller's context ends returns)                               *)
(***************************************************************************)
EXTENDS Integers, Sequences, FiniteSets, TLC

CONSTANTS Design,       \* "orig" | "fixed"
          Derefers,     \* set of deref thread ids
          BodyKind,     \* "value" | "error" | "sleeps" (honours cancellation) | "ignores" (does not) | "borndead"
          WithCancel,   \* BOOLEAN: a canceller thread exists
          CallerCtxEnds \* BOOLEAN: the derefers' caller context may end

VARIABLES bpc,        \* body: "init" | "running" | "evaluated" | "delivered" | "finished"
          slot,       \* "empty" | "val" | "err"           (the two channels hold at most one outcome)
          done, cancelled, bodyCtxCancelled,
          outcome,    \* what the body computed: "none" | "val" | "err" | "timeout"
          dpc,        \* [Derefers -> "idle" | "holding" | "returned"]
          dres,       \* [Derefers -> "none" | "val" | "err" | "ctx"]
          cpc,        \* canceller: "idle" | "checked" | "returned" | "none"
          cres,       \* canceller's result: "none" | "true" | "false"
          sawRunning, \* canceller's check saw done = FALSE
          starts,     \* number of body evaluations (P1)
          completedUncancelled, \* history: the body delivered while cancelled was still FALSE
          anyDerefReturned,
          callerEnded,
          startedAfter  \* history: the canceller started after the body had completed uncancelled
vars == <<bpc, slot, done, cancelled, bodyCtxCancelled, outcome, dpc, dres, cpc, cres, sawRunning, starts,
          completedUncancelled, anyDerefReturned, callerEnded, startedAfter>>

Init == /\ bpc = "init" /\ slot = "empty" /\ done = FALSE /\ cancelled = FALSE /\ bodyCtxCancelled = FALSE
        /\ outcome = "none" /\ dpc = [d \in Derefers |-> "idle"] /\ dres = [d \in Derefers |-> "none"]
        /\ cpc = (IF WithCancel THEN "idle" ELSE "none") /\ cres = "none" /\ sawRunning = FALSE /\ starts = 0
        /\ completedUncancelled = FALSE /\ anyDerefReturned = FALSE /\ callerEnded = FALSE /\ startedAfter = FALSE

Rest == <<dpc, dres, cpc, cres, sawRunning, anyDerefReturned, callerEnded, startedAfter>>

\* ------------------------------------------------------------------ body
BodyStart == /\ bpc = "init" /\ bpc' = "running" /\ starts' = starts + 1
             /\ UNCHANGED <<slot, done, cancelled, bodyCtxCancelled, outcome, completedUncancelled>> /\ UNCHANGED Rest
\* the evaluation ends: with its value/error, or with a timeout error when its context was cancelled and it listens
BodyEval == /\ bpc = "running"
            /\ \/ /\ BodyKind \in {"value", "ignores"} /\ outcome' = "val"
               \/ /\ BodyKind = "error" /\ outcome' = "err"
               \/ /\ BodyKind = "sleeps" /\ outcome' = (IF bodyCtxCancelled THEN "timeout" ELSE "val")
               \* the context the future was created under had ended before the body started: its evaluation ends at
               \* once with the timeout error, whether or not anybody cancels the future
               \/ /\ BodyKind = "borndead" /\ outcome' = "timeout"
            /\ bpc' = "evaluated"
            /\ UNCHANGED <<slot, done, cancelled, bodyCtxCancelled, starts, completedUncancelled>> /\ UNCHANGED Rest
\* "fixed": done is set (under the mutex) BEFORE the outcome is delivered
BodyMarkDoneFirst == /\ Design = "fixed" /\ bpc = "evaluated" /\ done' = TRUE /\ bpc' = "marked"
                     /\ completedUncancelled' = (completedUncancelled \/ ~cancelled)
                     /\ UNCHANGED <<slot, cancelled, bodyCtxCancelled, outcome, starts>> /\ UNCHANGED Rest
BodyDeliver == /\ bpc = (IF Design = "fixed" THEN "marked" ELSE "evaluated") /\ slot = "empty"
               /\ slot' = (IF outcome = "val" THEN "val" ELSE "err")
               /\ bpc' = (IF Design = "fixed" THEN "finished" ELSE "delivered")
               /\ completedUncancelled' = (completedUncancelled \/ (Design = "orig" /\ ~cancelled))
               /\ UNCHANGED <<done, cancelled, bodyCtxCancelled, outcome, starts>> /\ UNCHANGED Rest
\* "orig": the deferred done := true runs after the delivery
BodySetDoneLast == /\ Design = "orig" /\ bpc = "delivered" /\ done' = TRUE /\ bpc' = "finished"
                   /\ UNCHANGED <<slot, cancelled, bodyCtxCancelled, outcome, starts, completedUncancelled>> /\ UNCHANGED Rest

\* ----------------------------------------------------------------- deref
DerefTake(d) == /\ dpc[d] = "idle" /\ slot # "empty"
                /\ dres' = [dres EXCEPT ![d] = slot] /\ slot' = "empty" /\ dpc' = [dpc EXCEPT ![d] = "holding"]
                /\ UNCHANGED <<bpc, done, cancelled, bodyCtxCancelled, outcome, starts, completedUncancelled, cpc, cres,
                               sawRunning, anyDerefReturned, callerEnded, startedAfter>>
DerefRedeposit(d) == /\ dpc[d] = "holding" /\ slot' = dres[d] /\ dpc' = [dpc EXCEPT ![d] = "returned"]
                     /\ anyDerefReturned' = TRUE
                     /\ UNCHANGED <<bpc, done, cancelled, bodyCtxCancelled, outcome, starts, completedUncancelled, dres, cpc,
                                    cres, sawRunning, callerEnded, startedAfter>>
CallerEnds == /\ CallerCtxEnds /\ ~callerEnded /\ callerEnded' = TRUE
              /\ UNCHANGED <<bpc, slot, done, cancelled, bodyCtxCancelled, outcome, starts, completedUncancelled, dpc, dres,
                             cpc, cres, sawRunning, anyDerefReturned, startedAfter>>
DerefCtx(d) == /\ dpc[d] = "idle" /\ callerEnded /\ dres' = [dres EXCEPT ![d] = "ctx"] /\ dpc' = [dpc EXCEPT ![d] = "returned"]
               /\ UNCHANGED <<bpc, slot, done, cancelled, bodyCtxCancelled, outcome, starts, completedUncancelled, cpc, cres,
                              sawRunning, anyDerefReturned, callerEnded, startedAfter>>

\* ---------------------------------------------------------------- cancel
\* "fixed": check and mark are ONE step (one critical section); "orig": two steps
CancelCheck == /\ cpc = "idle" /\ Design = "orig" /\ sawRunning' = ~done /\ cpc' = "checked"
               /\ startedAfter' = (completedUncancelled /\ ~cancelled)
               /\ UNCHANGED <<bpc, slot, done, cancelled, bodyCtxCancelled, outcome, starts, completedUncancelled, dpc, dres,
                              cres, anyDerefReturned, callerEnded>>
CancelMark == /\ cpc = "checked"
              /\ IF sawRunning THEN cancelled' = TRUE /\ done' = TRUE /\ bodyCtxCancelled' = TRUE
                 ELSE UNCHANGED <<cancelled, done, bodyCtxCancelled>>
              /\ cres' = (IF cancelled' THEN "true" ELSE "false") /\ cpc' = "returned"
              /\ UNCHANGED <<bpc, slot, outcome, starts, completedUncancelled, dpc, dres, sawRunning, anyDerefReturned, callerEnded,
                             startedAfter>>
CancelAtomic == /\ cpc = "idle" /\ Design = "fixed" /\ sawRunning' = ~done
                /\ startedAfter' = (completedUncancelled /\ ~cancelled)
                /\ IF ~done THEN cancelled' = TRUE /\ done' = TRUE /\ bodyCtxCancelled' = TRUE
                   ELSE UNCHANGED <<cancelled, done, bodyCtxCancelled>>
                /\ cres' = (IF cancelled' THEN "true" ELSE "false") /\ cpc' = "returned"
                /\ UNCHANGED <<bpc, slot, outcome, starts, completedUncancelled, dpc, dres, anyDerefReturned, callerEnded>>

AllQuiet == bpc = "finished" /\ (\A d \in Derefers : dpc[d] = "returned") /\ cpc \in {"returned", "none"}
Next == \/ BodyStart \/ BodyEval \/ BodyMarkDoneFirst \/ BodyDeliver \/ BodySetDoneLast
        \/ \E d \in Derefers : DerefTake(d) \/ DerefRedeposit(d) \/ DerefCtx(d)
        \/ CallerEnds \/ CancelCheck \/ CancelMark \/ CancelAtomic
        \/ (AllQuiet /\ UNCHANGED vars)
Spec == Init /\ [][Next]_vars /\ WF_vars(Next)

\* ------------------------------------------------------------ properties
P1_BodyOnce == starts <= 1 /\ (bpc # "init" => starts = 1)
P2_SameOutcome == \A d1, d2 \in Derefers :
                    (dpc[d1] = "returned" /\ dpc[d2] = "returned" /\ dres[d1] # "ctx" /\ dres[d2] # "ctx") => dres[d1] = dres[d2]
P3_FlagsMonotone == [][(done => done') /\ (cancelled => cancelled')]_vars
P4_DerefImpliesDone == anyDerefReturned => done
\* cancel on a future that completed without having been cancelled returns false
P5_CancelAfterCompletionIsFalse == (cpc = "returned" /\ startedAfter) => (cres = "false" /\ ~cancelled /\ ~bodyCtxCancelled)
P6_CancelWhileRunning == (cpc = "returned" /\ sawRunning) => (cres = "true" /\ cancelled /\ bodyCtxCancelled)
P7_Termination == <>AllQuiet
=============================================================================
