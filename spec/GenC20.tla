------------------------------- MODULE GenC20 -------------------------------
(***************************************************************************)
(* C20: the reflective binder's CONTRACT, as a function                    *)
(*   Contract(shape, bounds, args) -> "invoke" | "error"                   *)
(* A bound Go function is invoked, with exactly the lisp arguments given   *)
(* (nil as the zero INTERFACE value, the context injected when the first   *)
(* parameter is a context), iff the argument count lies within the         *)
(* declared or signature-derived bounds and every argument is assignable   *)
(* to its parameter; results map by convention; a panic becomes a          *)
(* catchable error wrapping the original; the registered name is the       *)
(* hyphenated lower-case function name (or the given one).                 *)
(* Shapes: ctx {0,1} x fixed params {0,1,2} x variadic {0,1} x results     *)
(* {0,1,2} x typing {int, mal, mixed, iface}; the Go functions for all of  *)
(* them are generated (lib/gen_binder.py) into a dotted and a dot-less     *)
(* import path.                                                            *)
(***************************************************************************)
EXTENDS Values, Json

CONSTANT Full   \* TRUE: all entry/path combinations and bound pairs

Typings == <<"int", "mal", "mixed", "iface", "str">>
Shapes == {[ctx |-> c, nf |-> f, var |-> v, nres |-> r, ty |-> t] :
             c \in {0, 1}, f \in {0, 1, 2}, v \in {0, 1}, r \in {0, 1, 2}, t \in {1, 2, 3, 4, 5}}

\* declared bounds: <<>> none, <<min>>, <<min, max>>  (only legal on variadic functions)
BoundsFull == <<<<>>, <<0>>, <<1>>, <<2>>, <<0, 0>>, <<0, 1>>, <<1, 1>>, <<1, 2>>, <<0, 2>>, <<2, 3>>, <<1, 3>>>>
BoundsQuick == <<<<>>, <<1>>, <<2>>, <<0, 1>>, <<1, 2>>, <<2, 3>>>>
Bounds == IF Full THEN BoundsFull ELSE BoundsQuick

One == IntV(1)
Lst == ListV(<<IntV(1)>>)
Pattern(p, n) ==
  CASE p = 1 -> [k \in 1..n |-> One]
    [] p = 2 -> [k \in 1..n |-> NilV]
    [] p = 3 -> [k \in 1..n |-> StrV("s")]
    [] p = 4 -> [k \in 1..n |-> Lst]
    [] p = 5 -> [k \in 1..n |-> IF k = 1 THEN NilV ELSE One]
    [] p = 6 -> [k \in 1..n |-> IF k = n THEN StrV("s") ELSE One]
    [] p = 7 -> [k \in 1..n |-> IF k = 1 THEN StrV("s") ELSE NilV]

\* type of the parameter the k-th lisp argument lands in
ParamType(sh, k) ==
  LET t == Typings[sh.ty] IN
    IF t = "int" THEN "int"
    ELSE IF t = "mal" THEN "mal"
    ELSE IF k = 1 /\ sh.nf >= 1 THEN (IF t = "mixed" THEN "int" ELSE IF t = "str" THEN "str" ELSE "error") ELSE "mal"
\* nil is the zero value of the INTERFACE type MalType: assignable to interface{} parameters only
\* (an int is CONVERTIBLE to a Go string, a list to a vector: assignability is what the contract says)
Assignable(v, ty) == CASE ty = "mal" -> TRUE [] ty = "int" -> v.t = "int" [] ty = "str" -> v.t = "str" [] ty = "error" -> FALSE

CountOk(sh, b, n) ==
  /\ IF sh.var = 0 THEN n = sh.nf ELSE n >= sh.nf
  /\ Len(b) >= 1 => n >= b[1]
  /\ Len(b) = 2 => n <= b[2]
Contract(sh, b, args) ==
  IF CountOk(sh, b, Len(args)) /\ \A k \in 1..Len(args) : Assignable(args[k], ParamType(sh, k))
  THEN "invoke" ELSE "error"

ShapeName(sh) == "bf_c" \o ToString(sh.ctx) \o "_f" \o ToString(sh.nf) \o "_v" \o ToString(sh.var) \o
                 "_r" \o ToString(sh.nres) \o "_" \o Typings[sh.ty]
LispName(sh) == "bf-c" \o ToString(sh.ctx) \o "-f" \o ToString(sh.nf) \o "-v" \o ToString(sh.var) \o
                "-r" \o ToString(sh.nres) \o "-" \o Typings[sh.ty]

\* panic-lisperr: the function panics with a value that is ALREADY a lisp error (wrapping the sentinel)
Modes == <<"ok", "err", "panic-err", "panic-str", "panic-lisperr">>
Routes == IF Full THEN {<<"call", "dotted">>, <<"call", "dotless">>, <<"override", "dotted">>, <<"override", "dotless">>}
          ELSE {<<"call", "dotted">>, <<"override", "dotless">>}

\* ctxend = 1: the context of the evaluation ends WHILE THE ARGUMENTS ARE EVALUATED (the last argument expression,
\* whose value is nil, cancels it): the contract speaks about counts and types only, so the outcome is the same
\* METHOD EXPRESSIONS bound with Call: (*BinderStore).Bm_Ptr_Get and BinderStore.Bm_Val_Get are functions whose first
\* parameter is the receiver; they are registered under the METHOD's hyphenated lower-case name and take the receiver
\* (supplied by the harness) plus one argument.  Encoded as the pseudo-shapes ty = 6 / 7 (nf = 1 counts the argument
\* after the receiver).
MethodShapes == {[ctx |-> 0, nf |-> 1, var |-> 0, nres |-> 2, ty |-> t] : t \in {6, 7}}
IsMethod(s) == s.ty >= 6
MethodFn(s) == IF s.ty = 6 THEN "bm_ptr_get" ELSE "bm_val_get"
MethodLisp(s) == IF s.ty = 6 THEN "bm-ptr-get" ELSE "bm-val-get"

VARIABLES sh, b, pat, n, mode, route, ph, ctxend
vars == <<sh, b, pat, n, mode, route, ph, ctxend>>
Init == /\ ph = 0 /\ sh \in Shapes \cup MethodShapes
        /\ b \in (IF sh.var = 1 THEN 1..Len(Bounds) ELSE {1})
        /\ n \in 0..5 /\ pat \in 1..7 /\ (n = 0 => pat = 1)
        /\ route \in Routes
        /\ (IsMethod(sh) => n <= 2 /\ pat \in {1, 2} /\ route[1] = "call")
        \* (the override names hold a percent sign: a format verb to anything that builds messages with them)
        /\ mode \in (IF pat = 1 /\ ~IsMethod(sh) /\ (route = <<"call", "dotted">> \/ (route[1] = "override" /\ sh.nres = 2)) THEN 1..5 ELSE {1})
        /\ ctxend \in {0, 1} /\ (ctxend = 1 => n >= 1 /\ pat = 2 /\ mode = 1)

Next == /\ ph = 0 /\ ph' = 1 /\ UNCHANGED <<sh, b, pat, n, mode, route, ctxend>>
        /\ LET args == Pattern(pat, n)
               bounds == Bounds[b]
               out == IF IsMethod(sh) THEN (IF n = 1 THEN "invoke" ELSE "error") ELSE Contract(sh, bounds, args)
               md == Modes[mode]
               \* what the caller gets when the function IS invoked
               res == CASE md = "ok" -> (IF sh.nres = 2 THEN "value" ELSE "nil")
                        [] md = "err" -> (IF sh.nres = 0 THEN "nil" ELSE "returned-error")
                        [] md = "panic-err" -> "panic-error"
                        [] md = "panic-str" -> "panic-value"
                        [] md = "panic-lisperr" -> "panic-error"
               c == [kind |-> "binder", tag |-> IF IsMethod(sh) THEN "method" ELSE Typings[sh.ty],
                     fn |-> IF IsMethod(sh) THEN MethodFn(sh) ELSE ShapeName(sh),
                     name |-> IF IsMethod(sh) THEN MethodLisp(sh) ELSE IF route[1] = "call" THEN LispName(sh) ELSE "ovr%d-" \o LispName(sh),
                     entry |-> route[1], path |-> route[2], bounds |-> bounds, args |-> args, mode |-> md,
                     ctx_expected |-> sh.ctx, expect |-> out, result |-> res, ctxend |-> ctxend,
                     src |-> (IF IsMethod(sh) THEN MethodFn(sh) ELSE ShapeName(sh)) \o " " \o ToString(bounds) \o " n=" \o ToString(n) \o " p" \o ToString(pat) \o " " \o md \o (IF ctxend = 1 THEN " ctxend" ELSE "")]
           IN PrintT("CASE " \o ToJson(c))
Spec == Init /\ [][Next]_vars
=============================================================================
