------------------------------- MODULE GenC07 -------------------------------
(***************************************************************************)
(* C07 instances of Cancel.tla: the program shapes, model-checked one by   *)
(* one (TLC explores Cancel / budget expiry at EVERY step), and printed as *)
(* cases (lisp text + the bound on post-cancel loop iterations) for the    *)
(* replay harness, which cancels the real context at the k-th iteration of *)
(* the real evaluation loop for k = 1..K.                                  *)
(***************************************************************************)
EXTENDS Integers, Sequences, FiniteSets, TLC, Json

CONSTANTS ModeC

N == [t |-> "none"]
B(t) == [t |-> t]
Try(b, h, f) == [t |-> "try", body |-> b, h |-> h, f |-> f]
\* evloop / evsleep: the same under (eval '...): the evaluation started by a builtin runs under the caller's context
\* derefc: deref of a future that was cancelled while its body is in a host call that ignores cancellation
\* swapspin: a swap! whose update function writes the atom being swapped: it is retried for ever
\* derefold: deref of a future that an EARLIER evaluation (another context) started and that is still running
Basic == <<"loop", "rec", "macro", "sleep", "deref", "evloop", "evsleep", "derefc", "swapspin", "derefold">>

\* lisp text of a shape
Txt(t) == CASE t = "loop" -> "(lp 0)" [] t = "rec" -> "(rcl)" [] t = "macro" -> "(spin)"
            [] t = "sleep" -> "(sleep 100000)" [] t = "deref" -> "@(future (sleep 100000))" [] t = "value" -> ":h"
            [] t = "evloop" -> "(eval '(lp 0))" [] t = "evsleep" -> "(eval (list 'sleep 100000))"
            [] t = "derefc" -> "(let [fc (future (busy! 30000))] (future-cancel fc) @fc)"
            [] t = "derefold" -> "@oldfut"
            [] t = "swapspin" -> "(swap! spa (fn [v] (reset! spa (+ v 1)) v))"
RECURSIVE Text(_)
\* a handler / finally body that is a plain value is written with TWO forms, the first one an effect: the handler
\* (and the finally body) "still gets to run" means every one of its forms does
Text(s) == IF s.t = "try"
           THEN "(try " \o Text(s.body) \o
                (IF s.h.t = "none" THEN "" ELSE IF s.h.t = "value" THEN " (catch e (trace! :hh) :h)"
                 ELSE " (catch e " \o Text(s.h) \o ")") \o
                (IF s.f.t = "none" THEN "" ELSE IF s.f.t = "value" THEN " (finally (trace! :ff) :h)"
                 ELSE " (finally " \o Text(s.f) \o ")") \o ")"
           ELSE Txt(s.t)

\* bare shapes; each as try body with every handler kind and finally kind; nested twice
Handlers == <<N, B("value"), B("loop"), B("sleep"), B("macro")>>
Finals == <<N, B("loop"), B("value")>>
Level1 == [i \in 1..(Len(Basic) * Len(Handlers) * Len(Finals)) |->
             LET b == ((i - 1) % Len(Basic)) + 1
                 h == (((i - 1) \div Len(Basic)) % Len(Handlers)) + 1
                 f == ((i - 1) \div (Len(Basic) * Len(Handlers))) + 1
             IN Try(B(Basic[b]), Handlers[h], Finals[f])]
Level2 == << Try(Try(B("loop"), B("loop"), N), B("sleep"), B("loop")),
             Try(Try(B("sleep"), N, B("loop")), B("value"), N),
             Try(B("value"), N, Try(B("loop"), B("loop"), N)),
             Try(Try(B("rec"), B("value"), N), N, B("value")),
             Try(Try(B("deref"), B("macro"), B("loop")), B("loop"), B("loop")),
             Try(B("loop"), Try(B("sleep"), B("loop"), N), N) >>
Shapes == [i \in 1..Len(Basic) |-> B(Basic[i])] \o Level1 \o Level2
NShapes == Len(Shapes)

VARIABLES prog, cur, k, blocked, parentDone, post, result, handlerRan
C == INSTANCE Cancel WITH Progs <- {Shapes[i] : i \in 1..NShapes}, Mode <- ModeC
Spec == C!Spec
PromptAfterCancel == C!PromptAfterCancel
EndedLeadsToDone == C!EndedLeadsToDone

ASSUME \A i \in 1..NShapes :
         PrintT("CASE " \o ToJson([kind |-> "cancel", tag |-> Shapes[i].t, shape |-> i, mode |-> ModeC,
                                    src |-> Text(Shapes[i]), bound |-> C!BoundOf(Shapes[i])]))
=============================================================================
