------------------------------ MODULE GenRepl ------------------------------
(***************************************************************************)
(* Sessions for the REPL state machine (Repl.tla): every sequence of       *)
(* 1..MaxLines lines over the alphabet (mode "all": index-decoded, one     *)
(* session per TLC state), with the output lines the specification         *)
(* prescribes.  For every session TLC also checks, on the model,           *)
(* LineByLineEqualsWhole: typing the same lines joined into ONE line (when *)
(* no line holds a comment) yields the same outputs whenever the session   *)
(* ends with an empty buffer after exactly one output.                     *)
(***************************************************************************)
EXTENDS Repl, Json

CONSTANTS Sample   \* 0: every session; n > 0: every n-th session of length MaxLines (shorter ones all)

NA == Len(Alphabet)
RECURSIVE Pow(_, _)
Pow(b, e) == IF e = 0 THEN 1 ELSE b * Pow(b, e - 1)
\* sessions of length exactly L are numbered 0 .. NA^L - 1
Decode(L, n) == [k \in 1..L |-> Alphabet[((n \div Pow(NA, k - 1)) % NA) + 1]]


HasComment(l) == \E i \in 1..Len(l) : Ch(l, i) = ";"

VARIABLES len, idx, ph
gvars == <<len, idx, ph>>
GInit == /\ sess = 0 /\ typed = 0 /\ ph = 0 /\ len \in 1..MaxLines /\ idx \in 0..(Pow(NA, len) - 1)
         /\ (len < MaxLines \/ Sample = 0 \/ idx % Sample = 0)
GNext == /\ ph = 0 /\ ph' = 1 /\ UNCHANGED <<len, idx, sess, typed>>
         /\ LET lines == Decode(len, idx)
                s == FeedAll(Session0, lines, 1)
                whole == Feed(Session0, Join(lines, " "))
                c == [kind |-> "replsession", lines |-> lines, outs |-> s.outs, pending |-> Len(s.buf), bad |-> s.bad,
                      src |-> Join(lines, "\\n")]
            IN /\ (s.bad \/ whole.bad \/ (\E k \in 1..Len(lines) : HasComment(lines[k])) \/ Len(s.outs) # 1 \/ s.buf # <<>>
                   \/ Len(whole.outs) # 1 \/ whole.outs = s.outs
                   \/ Assert(FALSE, <<"LineByLineEqualsWhole", lines, s.outs, whole.outs>>))
               /\ PrintT("CASE " \o ToJson(c))
GSpec == GInit /\ [][GNext]_<<gvars, vars>>
=============================================================================
