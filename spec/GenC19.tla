------------------------------- MODULE GenC19 -------------------------------
(***************************************************************************)
(* C19: a program means the same however it is delivered.                  *)
(* Programs: every C01-grammar program up to MaxSize nodes, plus a pool of *)
(* multi-form programs (definitions, closures, macros, try/throw, strings  *)
(* holding comment characters, errors in the middle).  Each is RENDERED by *)
(* the model with 12 layouts (comment after every token, blank lines,      *)
(* CRLF, tabs, no final newline, trailing comment with / without newline,  *)
(* leading comment, ';; $MODULE' header...).                               *)
(* Checked on the model for every case: reading the rendered text gives    *)
(* back exactly the forms (layout insensitivity of Text.tla).              *)
(* The harness then runs every delivery route on the real code.            *)
(***************************************************************************)
EXTENDS C01Grammar, Json

CONSTANT MaxSize

Multi == <<
  "(def a 1) (def b (fn [n] (+ n a))) (trace! (b 2))",
  "(defmacro unless (fn [c p q] `(if ~c ~q ~p))) (unless false (trace! 1) (trace! 2))",
  "(def x 5) (throw (trace! x)) (trace! :not-reached)",
  "(trace! 1) (undefined-fn 2) (trace! 3)",
  "(def s \"a;b\\nc\") (trace! s) (trace! \"(\")",
  "(trace! (quote (1 [2 {:k \"v\"}] #{:a})))",
  "(try (throw {:a 1}) (catch e (trace! e)))",
  "(cond false 1 true (trace! 2))",
  "(def y (let [x 2 y (+ x 1)] (trace! (list x y)) y)) (trace! (+ x y))",
  "(def k (fn [n acc] (if (< n 1) acc (k (- n 1) (cons n acc))))) (trace! (k 3 ()))",
  "(trace! `(1 ~x ~@(list 2 3)))",
  "(def m {:a (trace! 1)}) (trace! (get m :a))",
  "(do (trace! 1) (trace! 2)) (if (trace! nil) (trace! 3) (trace! 4))",
  "(trace! (and 1 (or false 2)))",
  "(def a (atom 0)) (swap! a + 2) (trace! @a)",
  "(trace! (eval (list '+ 1 2)))",
  "(trace! ¬raw \"quoted\" ; not a comment¬)",
  "(def h (fn [a b] a)) (trace! (try (h 1) (catch e (str e))))",
  "(trace! (try (nth [1] 5) (catch e (str e))))",
  "(def h (fn [a] (undefined-sym a))) (trace! (try (h 1) (catch e (pr-str e))))",
  "(trace! (try (throw \"boom\") (catch e (str e \"!\"))))",
  "(trace! (try (let [q 1] (+ q \"s\")) (catch e (str e))))",
  \* metadata on a list a macro generates below the top of its expansion
  "(defmacro tagged (fn [& xs] (list 'quote (with-meta (apply list xs) {:tag \"g\"})))) (trace! (meta (tagged 1 2 3))) (trace! (tagged 4))",
  \* a string holding a TAB and a string holding a carriage return (as characters, not escapes)
  "(def row \"id\tname\") (trace! row) (trace! (count (split row \"\t\")))",
  "(def cr \"a\rb\") (trace! cr) (trace! [cr {:k cr}])",
  \* a future whose body throws, awaited, the error looked at
  "(def fu (future (throw \"boom\"))) (trace! (try @fu (catch e (str \"job failed: \" e))))",
  \* a completed future as the value of a top-level form (the REPL prints it), awaited again afterwards
  "(def job (future (+ 40 2))) (def w @job) job (trace! (list w @job)) [job] (trace! @job)",
  \* strings holding line breaks (LF, CR LF), blanks before a line break, a line that looks like a preamble line
  "(def ml \"a  \r\\nb\\n c\") (trace! ml) (trace! (count ml)) (trace! (split ml \"\\n\"))",
  "(trace! \"x \\n;; $A 1\\n\\n;; $B\r\\n\") (trace! (count \"\r\\n\"))",
  \* symbols, keywords and quoted forms compared with = (the reader gives every token its own position)
  "(trace! (= 'abc 'abc)) (trace! (= (symbol \"x\") 'x)) (def op (fn [f] (if (= (first f) 'sum) :sum :other))) (trace! (op '(sum 1 2))) (trace! (= '(a [b]) '(a [b])))",
  \* statements that are not lists: a vector / map literal with an effect, a bare symbol, between other statements
  "(def hits (atom 0)) [(swap! hits inc)] {:k (swap! hits inc)} hits (trace! @hits) 7 (trace! (swap! hits inc))" >>

CtxForms == C01CtxForms
G == C01G

ASSUME InitRegisters
ASSUME SetContext(CtxForms)
ASSUME TLCSet(3, Norm(G))
ASSUME TLCSet(4, Norm(CountTab(G, MaxSize, <<>>)))
ASSUME TLCSet(5, Norm([k \in 1..Len(Multi) |-> ReadAll(Multi[k])]))
ASSUME PrintT("CTX " \o ToJson([name |-> "c01", forms |-> CtxForms]))

\* token texts of a form; raw = TRUE: a string is written as a RAW string literal (its characters as they are,
\* line breaks included) whenever it does not hold the delimiter
RECURSIVE HasCh(_, _, _)
HasCh(s, c, i) == i <= Len(s) /\ (SubSeq(s, i, i) = c \/ HasCh(s, c, i + 1))
RECURSIVE ToksR(_, _)
ToksR(v, raw) ==
  CASE v.t = "list" -> <<"(">> \o Flatten([k \in 1..Len(v.xs) |-> ToksR(v.xs[k], raw)]) \o <<")">>
    [] v.t = "vec" -> <<"[">> \o Flatten([k \in 1..Len(v.xs) |-> ToksR(v.xs[k], raw)]) \o <<"]">>
    [] v.t = "map" -> LET ks == SetToSeq(DOMAIN v.m) IN
                        <<"{">> \o Flatten([k \in 1..Len(ks) |-> <<PrStr(KeyVal(ks[k]))>> \o ToksR(v.m[ks[k]], raw)]) \o <<"}">>
    [] v.t = "set" -> LET ks == SetToSeq(DOMAIN v.m) IN <<"#{">> \o [k \in 1..Len(ks) |-> PrStr(KeyVal(ks[k]))] \o <<"}">>
    [] v.t = "str" /\ raw /\ ~HasCh(v.s, "¬", 1) -> <<"¬" \o v.s \o "¬">>
    [] OTHER -> <<PrStr(v)>>

Layouts == <<
  [n |-> "spaces",     h |-> "",                     sep |-> " ",                tr |-> ""],
  [n |-> "newlines",   h |-> "",                     sep |-> "\n",               tr |-> "\n"],
  [n |-> "comments",   h |-> "",                     sep |-> " ; c (\n",         tr |-> ""],
  [n |-> "crlf",       h |-> "",                     sep |-> "\r\n",             tr |-> "\r\n"],
  [n |-> "blank",      h |-> "\n\n",                 sep |-> "\n\n",             tr |-> "\n\n"],
  [n |-> "tail-cmt",   h |-> "",                     sep |-> " ",                tr |-> " ; end"],
  [n |-> "tail-cmt-nl", h |-> "",                    sep |-> " ",                tr |-> " ; end\n"],
  [n |-> "lead-cmt",   h |-> "; start\n\n",          sep |-> " ",                tr |-> "\n"],
  [n |-> "module",     h |-> ";; $MODULE mymod\n",   sep |-> " ",                tr |-> "\n"],
  [n |-> "tabs",       h |-> "\t",                   sep |-> "\t",               tr |-> "\t"],
  [n |-> "quote-cmt",  h |-> "",                     sep |-> " ; \" ¬ (\n",      tr |-> "\n"],
  [n |-> "mixed",      h |-> " \r\n",                sep |-> "  \n ; x\n\r\n",   tr |-> " "],
  \* strings as raw string literals: the line breaks and blanks they hold are part of the TEXT
  [n |-> "raw",        h |-> "",                     sep |-> " ",                tr |-> "\n"],
  [n |-> "raw-crlf",   h |-> "; c\r\n",              sep |-> "\r\n",             tr |-> "\r\n"],
  \* first lines that look like the preamble of READWithPreamble but are comments to READ / REPL / load-file
  [n |-> "dollar-cmt", h |-> ";; $Id: prog.lisp 42 $\n;; $x 10\n", sep |-> " ",      tr |-> "\n"] >>

IsRaw(L) == L.n \in {"raw", "raw-crlf"}
RenderForm(v, L) == Join(ToksR(v, IsRaw(L)), L.sep)
Render(forms, L) == L.h \o Join([k \in 1..Len(forms) |-> RenderForm(forms[k], L)], L.sep) \o L.tr

VARIABLES src, sz, idx, lay, ph
vars == <<src, sz, idx, lay, ph>>
Init == /\ ph = 0 /\ lay \in 1..Len(Layouts)
        /\ \/ src = "gram" /\ sz \in 1..MaxSize /\ idx \in 0..(TLCGet(4)[sz] - 1)
           \/ src = "multi" /\ sz = 0 /\ idx \in 1..Len(Multi)

Next == /\ ph = 0 /\ ph' = 1 /\ UNCHANGED <<src, sz, idx, lay>>
        /\ LET forms == IF src = "gram" THEN <<Decode(TLCGet(3), TLCGet(4), sz, idx)>> ELSE TLCGet(5)[idx]
               L == Layouts[lay]
               text == Render(forms, L)
               back == Tokenize(text)
               ok == back.st = "ok" /\ ReadAllFrom(back.toks, 1, <<>>) = forms
               r == RunInCtx(forms)
               c == [kind |-> "routes", tag |-> L.n, src |-> Join([k \in 1..Len(forms) |-> PrStr(forms[k])], " "),
                     ctx |-> "c01", forms |-> forms, text |-> text,
                     toptexts |-> [k \in 1..Len(forms) |-> L.h \o RenderForm(forms[k], L) \o L.tr],
                     allow |-> Outcome(r, {"x", "y"})]
           IN /\ Assert(ok, <<"layout changes the forms read", L.n, text>>)
              /\ PrintT("CASE " \o ToJson(c))
Spec == Init /\ [][Next]_vars
=============================================================================
