------------------------------ MODULE Grammars ------------------------------
(***************************************************************************)
(* Program grammars and contexts of the C03 (try/catch/finally) and C12    *)
(* (quasiquote, macros) generators, shared with the generators that reuse  *)
(* their programs (C18 stepper, C11 concurrent evaluations).               *)
(***************************************************************************)
EXTENDS C01Grammar

C03CtxText == "(def e :outer-e) (def thrower (fn [v] (throw v))) " \o
           "(def deep (fn [n v] (if (< n 1) (throw v) (deep (- n 1) v)))) " \o
           "(defmacro mthrow (fn [v] `(throw ~v))) " \o
           "(defmacro mfail (fn [v] (throw v))) " \o
           "(def at (atom 1))"
C03CtxForms == ReadAll(C03CtxText)

C03G == Grammar(
  <<"1", "\"s\"", ":k", "'sym", "'(1 2)", "'(+ 1 2)", "{:a 1}", "nil", "e", "(raise!)", "(boom!)",
    "(boom-str!)", "(nth [] 5)", "(trace! :b)", "undefined-symbol", "['x]", "(rawboom!)", "(rawboom-str!)", "(rawraise!)",
    "(go-error \"user:g\")", "(panic \"p\")", "(panic (go-error \"user:q\"))",
    \* an update function that writes the atom being swapped and then throws: the throw is delivered, not retried away
    "(swap! at (fn [v] (reset! at (+ v 1)) (throw :stale)))",
    \* try forms without a body; an error that crosses eval
    "(try (catch e :h) (finally (trace! :f)))", "(try (catch e :h))", "(try (finally (trace! :f)))", "(try)",
    "(eval '(throw {:code 7}))">>,
  <<"(error-string _1)", "(unwrap-error _1)", "(mfail _1)", "(eval (quote _1))",
    \* ... through builtins that call back into lisp
    "(update {:a 1} :a (fn [q] _1))", "(update-in {:a {:b 1}} [:a :b] (fn [q] _1))", "(map (fn [q] _1) [1 2])",
    "(apply (fn [q] _1) [1])", "(swap! (atom 1) (fn [q] _1))",
    "(throw _1)", "(thrower _1)", "(deep 2 _1)", "(mthrow _1)", "(try _1)", "(try _1 (catch e e))",
    "(try _1 (catch e :h))", "(try _1 (catch e (throw e)))", "(try _1 (catch e (trace! e)))",
    "(try _1 (finally (trace! :f)))", "(try _1 (finally (trace! e)))",
    "(try _1 (catch e e) (finally (trace! e)))", "(list _1 e)", "(trace! _1)",
    "(try _1 (catch e (list 1 e)))", "(try _1 (catch x (trace! e) x))", "(try _1 (catch e (str e)))">>,
  <<"(try _1 (catch e _2))", "(try _1 (catch e _2) (finally (trace! :f)))", "(try _1 (finally _2))",
    "(do _1 _2)", "(try _1 _2 (catch e e))", "(try _1 (catch e (trace! e) _2))",
    "(let [e _1] (try _2 (catch e e) (finally (trace! e))))">>,
  <<"(try _1 (catch e _2) (finally _3))">>)

C12CtxText == "(def x 7) (def xs (list 1 2)) (def v [3 4]) (def em ()) (def w '(5 6 7)) " \o
           "(defmacro m1 (fn [a] `(list ~a ~a))) " \o
           "(defmacro m2 (fn [a & r] `(if ~a (do ~@r) nil))) " \o
           "(defmacro m3 (fn [a] (list 'quote a))) " \o
           "(defmacro m4 (fn [a] `(m1 (m3 ~a)))) " \o
           "(defmacro mrec (fn [n] (if (< n 1) :done `(mrec ~(- n 1))))) " \o
           "(defmacro m5 (fn [a b] `[~b ~@(list a a) {:k ~a}])) " \o
           "(defmacro mx (fn [a] `(let [x 1] (list x ~a)))) " \o
           "(defmacro mempty (fn [& r] ())) " \o
           "(defmacro mcall (fn [& xs] `(~@xs))) " \o
           "(defmacro mnest (fn [a] `(do (list 0 (nth [1] ~a))))) " \o
           "(def m1m (with-meta m1 {:doc 1})) " \o
           "(defmacro mexp (fn [a] (trace! :expanding) a)) (def fexp (fn [a] (mexp a))) " \o
           "(def f1 (fn [a] (list a a)))"
C12CtxForms == ReadAll(C12CtxText)

C12GQ == Grammar(
  <<"1", "a", ":k", "\"s\"", "~x", "~@xs", "~@em", "~@v", "~(trace! x)", "~@(trace! xs)", "unquote",
    "splice-unquote", "x", "()", "~@x", "~@w", "`(b ~x)">>,
  <<"(_1)", "[_1]", "{:k _1}", "(a _1)", "((_1 1) (_1 a))", "(quasiquote _1)">>,
  <<"(_1 _2)", "[_1 _2]">>,
  <<"(_1 _2 _3)", "[_1 _2 _3]">>)

C12GM == Grammar(
  <<"1", "x", "nil", "false", "(trace! 1)", "(trace! x)", "(trace! nil)", "xs", "(mrec 2)", "(macroexpand (mrec 2))", "(mempty)", "(mcall)",
    "(macroexpand (mcall))">>,
  <<"(m1 _1)", "(m3 _1)", "(f1 _1)", "(m4 _1)", "(mx _1)", "(mempty _1)", "(mcall list _1)", "(macroexpand (m1 _1))", "(eval (macroexpand (m1 _1)))",
    "(macroexpand (m4 _1))", "(eval (macroexpand (m4 _1)))", "(or _1)", "(and _1)", "(-> _1 inc)",
    "(cond _1 :c)", "(let [m1 f1] (m1 _1))", "(macroexpand (m2 _1))", "(macroexpand (f1 _1))",
    "(let [m3 (fn [a] :local)] (macroexpand (m3 _1)))",
    \* an error raised by a form nested inside the expansion (its position is the macro call's) / a threading chain failing inside
    "(mnest _1)", "(-> _1 (nth 7) (or 0))",
    \* a macro that went through with-meta is still a macro
    "(m1m _1)", "(macroexpand (m1m _1))",
    \* a macro with an effect at expansion time, its call site evaluated twice
    "(list (fexp _1) (fexp 2))">>,
  <<"(m2 _1 _2)", "(or _1 _2)", "(and _1 _2)", "(cond _1 _2)", "(-> _1 (list _2))", "(->> _1 (list _2))",
    "(macroexpand (or _1 _2))", "(eval (macroexpand (or _1 _2)))", "(m5 _1 _2)", "(macroexpand (m5 _1 _2))",
    "(eval (macroexpand (and _1 _2)))", "(macroexpand (cond _1 _2))">>,
  <<"(m2 _1 _2 _3)", "(or _1 _2 _3)", "(and _1 _2 _3)", "(cond _1 _2 true _3)">>)

\* the protocol library (defprotocol / extend / satisfies? / find-type), memoize, the folds: lisp-defined parts of the
\* standard library, read from their source text by the definition layer.  Receivers are scalars, atoms and macros:
\* find-type consults `meta` for collections and functions, which the model leaves open (abstains).
C12LCtxText == "(defprotocol Shape (area [this]) (scale [this k]) (desc [this & more])) " \o
           "(extend :mal/number Shape {:area (fn [n] (* n n)) :scale (fn [n k] (* n k)) :desc (fn [n & more] (list :num n more))}) " \o
           "(extend :mal/string Shape {:area (fn [s] (count (seq s)))} Shape {:scale (fn [s k] (str s k))}) " \o
           "(extend :mal/keyword Shape {:area (fn [k] (trace! k)) :desc (fn [k & more] (cons k more))}) " \o
           "(def at (atom 5)) (extend :mal/atom Shape {:area (fn [a] @a) :scale (fn [a k] (swap! a * k))}) " \o
           "(def mf (memoize (fn [a] (trace! a) (list a a)))) (def x 7)"
C12LCtxForms == ReadAll(C12LCtxText)

C12GL == Grammar(
  <<"3", "\"ab\"", ":k", "at", "nil", "'q", "true", "cond", "(trace! 2)", "x", "Shape",
    "(macroexpand '(defprotocol P (m [this]) (n [this a & r])))", "(do (defprotocol P (m [this])) (extend :mal/number P {:m inc}) (m 1))">>,
  <<"(area _1)", "(desc _1)", "(desc _1 1 2)", "(satisfies? Shape _1)", "(find-type _1)", "(mf _1)", "(scale _1)",
    "(do (extend :mal/nil Shape {:area (fn [z] :none)}) (area _1))", "(do (extend :mal/number Shape {:desc (fn [n & r] r)}) (area _1))",
    "(do (reset! Shape {}) (area _1))", "(count (keys (deref _1)))">>,
  <<"(scale _1 _2)", "(desc _1 _2)", "(list (mf _1) (mf _2))", "(list (area _1) (area _2))",
    "(reduce-kv (fn [a k v] (conj a [k v])) [] [_1 _2])", "(foldr (fn [e acc] (trace! e) (cons e acc)) () [_1 _2])",
    "(do (extend _1 Shape {:area (fn [z] :new)}) (area _2))", "(do (extend (find-type _1) Shape {:area (fn [z] :new)} Shape {:scale (fn [z k] :news)}) (list (satisfies? Shape _1) (scale _2 1)))">>,
  <<"(desc _1 _2 _3)", "(foldr list _1 [_2 _3])", "(reduce-kv list _1 [_2 _3])">>)

=============================================================================
