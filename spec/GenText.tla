------------------------------- MODULE GenText -------------------------------
(***************************************************************************)
(* Text generator for C05 / C06 / C16: EVERY string of length 0..MaxLen    *)
(* over an alphabet (a sequence of one-character strings chosen to hit     *)
(* every branch of scanner and reader), classified by the definition layer *)
(* Text.Read:  ok v | empty | incomplete closer | malformed | lexerr |     *)
(* unspec.  One TLC state per (length, index); the text is decoded from    *)
(* the index in the Next step.                                             *)
(* Checked on the model itself for every accepted text (RoundTripOk): the  *)
(* printed form of the value reads back to an equal value.                 *)
(***************************************************************************)
EXTENDS Text, Json

CONSTANTS AlphaName, MaxLen

Alphabets == [
  brackets |-> <<"(", ")", "[", "]", "{", "}", "'", "`", "~", "@", "^", "\"", "a", "1">>,
  strings  |-> <<"\"", "¬", "\\", ";", ":", "$", "#", "«", "»", "a", "1", "-", " ", "\n">>,
  macros   |-> <<"~", "@", "^", "'", "(", ")", "$", "a", ":", "#", "{", "}", "¬", "-">>,
  escapes  |-> <<"\"", "\\", "n", "t", "ʞ", "{", "}", "¬", "a", " ", ";", "\n", ":", "x">>,
  numbers  |-> <<"0", "1", "9", "-", ".", "e", "x", "_", "a", " ", "(", ")", "+", ":">>,
  \* TOKEN alphabet (entries are joined with a space): every bracket kind, reader macros,
  \* strings and raw strings CONTAINING brackets, a comment, atoms.  All token sequences up to
  \* MaxLen contain every well-formed expression of that size cut after every token and
  \* extended by every closer (C16).
  tokens   |-> <<"(", ")", "[", "]", "{", "}", "#{", "'", "\"]\"", "¬)¬", "a", "1", ":k", "; (\n", "¬x", "\"y">>,
  \* preamble-shaped texts (entries concatenated directly): module header, placeholder lines
  preamble |-> <<";; $MODULE ", ";; $MODULE", ";; $A 1", ";; $", "\n", "x", "$A", "(", ")", " ", ";;", "\n\n", "1", ";; $A">>,
  \* token alphabet with the NUL stand-in (entries joined with a space)
  nul      |-> <<"(", ")", "[", "]", "{", "}", "1", "a", "␀", "\"s\"", "; c\n", "'", "¬r¬">>,
  tokens2  |-> <<"(", ")", "[", "]", "{", "}", "#{", "~@", "@", "^", "\"a\"", ":k", "`", "~">>,
  \* string literals with every kind of backslash escape the scanner lets through (token fragments, joined directly)
  escseeds |-> <<"\"\\x00\"", "\"a\\u0000b\"", "\"\\000\"", "\"\\t\"", "\"\\x41\"", "\"\\101\"", "\"\\r\"", "\"\\U00000041\"",
                 "[", "]", " ", "{", "}", ":k ">>,
  \* not an alphabet: hand-written preambles of 8 x len lines, each value naming the placeholder of the line above
  \* twice (values are data: they are not expanded; PRINT of what is read stays small)
  chain    |-> <<"x">>,
  \* not an alphabet either: forms nested 400 x len deep, left open (incomplete: the expected closer is the innermost
  \* one's) or closed again (one value)
  deep     |-> <<"x">> ]
Sep == IF AlphaName \in {"tokens", "tokens2", "nul"} THEN " " ELSE ""
A == Alphabets[AlphaName]
NA == Len(A)

RECURSIVE Pow(_, _), TextOf(_, _)
Pow(b, e) == IF e = 0 THEN 1 ELSE b * Pow(b, e - 1)
TextOf(len, k) == IF len = 0 THEN "" ELSE A[(k % NA) + 1] \o Sep \o TextOf(len - 1, k \div NA)

RECURSIVE Rep(_, _)
Rep(x, n) == IF n = 0 THEN "" ELSE x \o Rep(x, n - 1)
ChainText(n, k) ==
  ";; $A 1\n" \o
  Rep(CASE k = 0 -> ";; $A [$A $A]\n" [] k = 1 -> ";; $A {:k $A :j $A}\n" [] k = 2 -> ";; $B [$A $A]\n;; $A [$B $B]\n"
        [] OTHER -> ";; $A ($A $A)\n", 8 * n) \o "\n$A"

DeepText(n, k) ==
  LET d == 400 * n IN
  CASE k = 0 -> Rep("(", d)
    [] k = 1 -> Rep("[1 ", d)
    [] k = 2 -> Rep("(a [b {:k ", d \div 2)
    [] k = 3 -> Rep("'", d) \o "(a"
    [] k = 4 -> Rep("#{", 1) \o Rep("\"s\" ", d)
    [] k = 5 -> Rep("(", d) \o Rep(")", d)
    [] k = 6 -> Rep("[", d) \o "7" \o Rep("]", d)
    [] OTHER -> Rep("(f ", d) \o "\"s"

VARIABLES len, idx, ph
Init == /\ ph = 0 /\ len \in 0..MaxLen
        /\ IF AlphaName = "chain" THEN len >= 1 /\ idx \in 0..3
           ELSE IF AlphaName = "deep" THEN len >= 1 /\ idx \in 0..7 ELSE idx \in 0..(Pow(NA, len) - 1)

Next == /\ ph = 0 /\ ph' = 1 /\ UNCHANGED <<len, idx>>
        /\ LET text == IF AlphaName = "chain" THEN ChainText(len, idx)
                       ELSE IF AlphaName = "deep" THEN DeepText(len, idx) ELSE TextOf(len, idx)
               r == Read(text)
               rt == IF r.st = "ok" THEN (LET r2 == Read(PrStr(r.v)) IN r2.st = "ok" /\ StructEq(r2.v, r.v)) ELSE TRUE
               \* (the value of a deeply nested text is not printed: it is as deep as the text)
               c == IF AlphaName = "deep"
                    THEN [kind |-> "text", tag |-> AlphaName, text |-> text, cls |-> r.st, closer |-> r.closer,
                          model_rt |-> IF rt THEN 1 ELSE 0]
                    ELSE [kind |-> "text", tag |-> AlphaName, text |-> text, cls |-> r.st, closer |-> r.closer,
                          v |-> r.v, model_rt |-> IF rt THEN 1 ELSE 0]
           IN /\ Assert(rt, <<"model round trip fails for", text>>)
              /\ PrintT("CASE " \o ToJson(c))
Spec == Init /\ [][Next]_<<len, idx, ph>>
=============================================================================
