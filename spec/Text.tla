-------------------------------- MODULE Text --------------------------------
(***************************************************************************)
(* Definition layer of the text format: tokens, reader, printer.           *)
(* Character level, on real TLA+ strings holding the real runes.           *)
(*                                                                         *)
(* Written from the mal guide's grammar plus the README amendments (raw    *)
(* strings between ¬ ... ¬ with ¬¬ doubling, sets #{...}, placeholders     *)
(* $NAME, Go constructors «...»), NOT from reader.go.  Where those sources *)
(* are silent the result is "unspec" (the oracle abstains):                *)
(*   - numeric literals other than -?[1-9][0-9]{0,8} and 0                 *)
(*   - string escapes other than \\ \" \n                                  *)
(*   - «...» constructors (need a host environment)                        *)
(*   - characters outside the alphabet known to this module                *)
(***************************************************************************)
EXTENDS Values

Ch(s, i) == SubSeq(s, i, i)

Lower == {"a","b","c","d","e","f","g","h","i","j","k","l","m","n","o","p","q",
          "r","s","t","u","v","w","x","y","z"}
Upper == {"A","B","C","D","E","F","G","H","I","J","K","L","M","N","O","P","Q",
          "R","S","T","U","V","W","X","Y","Z"}
Digit == {"0","1","2","3","4","5","6","7","8","9"}
\* U+029E is a (lower-case) letter for the token grammar; é stands for non-ASCII letters
Letter == Lower \cup Upper \cup {"ʞ", "é"}
IdentPunct == {"_", "$", "*", "+", "/", "?", "!", "<", ">", "="}
WS == {" ", "\t", "\n", "\r"}
Ident0(c) == c \in Letter \cup IdentPunct
IdentN(c) == c \in Letter \cup IdentPunct \cup Digit \cup {"-"}
\* single-character tokens the grammar knows
Special == {"(", ")", "[", "]", "{", "}", "'", "`", "~", "^", "@", "«", "»",
            "&", "#", ".", ",", "\\", "%", "|"}
Known == Letter \cup IdentPunct \cup Digit \cup WS \cup Special \cup {"-", ";", "\"", "¬", ":"}

DigitVal(c) == CASE c = "0" -> 0 [] c = "1" -> 1 [] c = "2" -> 2 [] c = "3" -> 3
                 [] c = "4" -> 4 [] c = "5" -> 5 [] c = "6" -> 6 [] c = "7" -> 7
                 [] c = "8" -> 8 [] c = "9" -> 9

Tok(k, s, i) == [k |-> k, s |-> s, i |-> i]

\* index of the first character after the run of identifier / digit characters from i
RECURSIVE IdentEnd(_, _), DigitEnd(_, _)
IdentEnd(s, i) == IF i <= Len(s) /\ IdentN(Ch(s, i)) THEN IdentEnd(s, i + 1) ELSE i
DigitEnd(s, i) == IF i <= Len(s) /\ Ch(s, i) \in Digit THEN DigitEnd(s, i + 1) ELSE i

RECURSIVE LineEnd(_, _)
LineEnd(s, i) == IF i > Len(s) \/ Ch(s, i) = "\n" THEN i ELSE LineEnd(s, i + 1)

RECURSIVE DecVal(_, _, _, _)
DecVal(s, i, j, acc) == IF i >= j THEN acc ELSE DecVal(s, i + 1, j, acc * 10 + DigitVal(Ch(s, i)))

(* quoted string starting after the opening quote at i.
   Result: [st |-> "ok"|"lexerr"|"unspec", e |-> index of closing quote, v |-> decoded] *)
RECURSIVE ScanStr(_, _, _, _)
ScanStr(s, i, acc, unspec) ==
  IF i > Len(s) THEN [st |-> "lexerr", e |-> i, v |-> acc]
  ELSE LET c == Ch(s, i) IN
    IF c = "\"" THEN [st |-> IF unspec THEN "unspec" ELSE "ok", e |-> i, v |-> acc]
    ELSE IF c = "\n" THEN [st |-> "lexerr", e |-> i, v |-> acc]
    ELSE IF c = "\\" THEN
      IF i + 1 > Len(s) THEN [st |-> "lexerr", e |-> i, v |-> acc]
      ELSE LET d == Ch(s, i + 1) IN
        IF d = "\\" THEN ScanStr(s, i + 2, acc \o "\\", unspec)
        ELSE IF d = "\"" THEN ScanStr(s, i + 2, acc \o "\"", unspec)
        ELSE IF d = "n" THEN ScanStr(s, i + 2, acc \o "\n", unspec)
        ELSE IF d \in {"a", "b", "f", "r", "t", "v"} THEN ScanStr(s, i + 2, acc, TRUE)
        ELSE IF d \in Digit \cup {"x", "u", "U"} THEN ScanStr(s, i + 2, acc, TRUE)
        ELSE IF d = "\n" THEN [st |-> "lexerr", e |-> i, v |-> acc]
        ELSE [st |-> "lexerr2", e |-> i + 1, v |-> acc]
    ELSE ScanStr(s, i + 1, acc \o c, unspec)

(* raw string starting after the opening ¬ at i *)
RECURSIVE ScanRaw(_, _, _)
ScanRaw(s, i, acc) ==
  IF i > Len(s) THEN [st |-> "lexerr", e |-> i, v |-> acc]
  ELSE IF Ch(s, i) = "¬" THEN
         IF i + 1 <= Len(s) /\ Ch(s, i + 1) = "¬" THEN ScanRaw(s, i + 2, acc \o "¬")
         ELSE [st |-> "ok", e |-> i, v |-> acc]
  ELSE ScanRaw(s, i + 1, acc \o Ch(s, i))

(***************************************************************************)
(* Lex: [st |-> "ok" | "lexerr" | "unspec", toks |-> Seq(Tok)]             *)
(* "lexerr" = the text is not a sequence of tokens (open string, bad       *)
(* escape); for an open string the cause is recorded in why = "open".      *)
(***************************************************************************)
LexRes(st, toks, why) == [st |-> st, toks |-> toks, why |-> why]

RECURSIVE Lex(_, _, _)
Lex(s, i, acc) ==
  IF i > Len(s) THEN LexRes("ok", acc, "")
  ELSE LET c == Ch(s, i) IN
    IF c \notin Known THEN LexRes("unspec", acc, "alphabet")
    ELSE IF c \in WS THEN Lex(s, i + 1, acc)
    ELSE IF c = ";" THEN Lex(s, LineEnd(s, i), acc)
    ELSE IF c = "\"" THEN
      LET r == ScanStr(s, i + 1, "", FALSE) IN
        IF r.st = "ok" THEN Lex(s, r.e + 1, Append(acc, Tok("str", r.v, 0)))
        ELSE IF r.st = "unspec" THEN LexRes("unspec", acc, "escape")
        ELSE LexRes("lexerr", acc, IF r.st = "lexerr" THEN "open" ELSE "escape")
    ELSE IF c = "¬" THEN
      LET r == ScanRaw(s, i + 1, "") IN
        IF r.st = "ok" THEN Lex(s, r.e + 1, Append(acc, Tok("str", r.v, 0)))
        ELSE LexRes("lexerr", acc, "open")
    ELSE IF c = ":" THEN
      LET j == IdentEnd(s, i + 1) IN Lex(s, j, Append(acc, Tok("kw", SubSeq(s, i + 1, j - 1), 0)))
    ELSE IF Ident0(c) THEN
      LET j == IdentEnd(s, i + 1) IN Lex(s, j, Append(acc, Tok("id", SubSeq(s, i, j - 1), 0)))
    ELSE IF c \in Digit \/ (c = "-" /\ i + 1 <= Len(s) /\ Ch(s, i + 1) \in Digit) THEN
      LET b == IF c = "-" THEN i + 1 ELSE i
          j == DigitEnd(s, b)
          nxt == IF j <= Len(s) THEN Ch(s, j) ELSE ""
      IN IF nxt \in {".", "e", "E", "p", "P", "_", "x", "X", "o", "O", "b", "B"} THEN LexRes("unspec", acc, "number")
         ELSE IF Ch(s, b) = "0" /\ j - b > 1 THEN LexRes("unspec", acc, "number")
         ELSE IF j - b > 18 THEN LexRes("unspec", acc, "number")
         ELSE IF j - b > 9 THEN Lex(s, j, Append(acc, Tok("bigint", (IF c = "-" THEN "-" ELSE "") \o SubSeq(s, b, j - 1), 0)))
         ELSE Lex(s, j, Append(acc, Tok("int", "", (IF c = "-" THEN -1 ELSE 1) * DecVal(s, b, j, 0))))
    ELSE IF c = "-" THEN
      IF i + 1 <= Len(s) /\ Ident0(Ch(s, i + 1))
      THEN LET j == IdentEnd(s, i + 2) IN Lex(s, j, Append(acc, Tok("id", SubSeq(s, i, j - 1), 0)))
      ELSE Lex(s, i + 1, Append(acc, Tok("id", "-", 0)))
    ELSE IF c = "~" /\ i + 1 <= Len(s) /\ Ch(s, i + 1) = "@" THEN Lex(s, i + 2, Append(acc, Tok("ch", "~@", 0)))
    ELSE IF c = "#" /\ i + 1 <= Len(s) /\ Ch(s, i + 1) = "{" THEN Lex(s, i + 2, Append(acc, Tok("ch", "#{", 0)))
    ELSE IF c = "." /\ i + 1 <= Len(s) /\ Ch(s, i + 1) \in Digit THEN LexRes("unspec", acc, "number")
    ELSE Lex(s, i + 1, Append(acc, Tok("ch", c, 0)))

Tokenize(s) == Lex(s, 1, <<>>)

(***************************************************************************)
(* Reader.  ph = placeholder values [has |-> BOOLEAN, m |-> name -> Node];  *)
(* has = FALSE when the caller supplies no placeholder map at all (NoPh).  *)
(* Result: [st, v, p, closer]                                              *)
(*   st = "ok"          v is the value, p the next token index             *)
(*        "incomplete"  tokens ran out inside a bracket; closer names the  *)
(*                      closing bracket of the INNERMOST open bracket      *)
(*        "malformed"   stray closer, macro character at end of input,     *)
(*                      odd map literal, non-string map key / set member   *)
(*        "unspec"      the oracle abstains                                *)
(***************************************************************************)
RR(st, v, p, closer) == [st |-> st, v |-> v, p |-> p, closer |-> closer]

MacroName(t) == CASE t = "'" -> "quote" [] t = "`" -> "quasiquote" [] t = "~" -> "unquote"
                  [] t = "~@" -> "splice-unquote" [] t = "@" -> "deref" [] OTHER -> ""

RECURSIVE PairsToMap(_, _, _)
\* xs = k1 v1 k2 v2 ...; later duplicates win
PairsToMap(xs, i, m) ==
  IF i > Len(xs) THEN [ok |-> TRUE, m |-> m]
  ELSE IF ~IsKeyable(xs[i]) THEN [ok |-> FALSE, m |-> m]
  ELSE PairsToMap(xs, i + 2, MapPut(m, KeyOf(xs[i]), xs[i + 1]))

RECURSIVE ReadForm(_, _, _), ReadSeq(_, _, _, _, _)

ReadForm(toks, p, ph) ==
  IF p > Len(toks) THEN RR("malformed", NilV, p, "underflow")
  ELSE LET t == toks[p] IN
    IF t.k = "int" THEN RR("ok", IntV(t.i), p + 1, "")
    ELSE IF t.k = "bigint" THEN RR("ok", BigIntV(t.s), p + 1, "")
    ELSE IF t.k = "str" THEN RR("ok", StrV(t.s), p + 1, "")
    ELSE IF t.k = "kw" THEN RR("ok", KwV(t.s), p + 1, "")
    ELSE IF t.k = "id" THEN
      IF t.s = "nil" THEN RR("ok", NilV, p + 1, "")
      ELSE IF t.s = "true" THEN RR("ok", TrueV, p + 1, "")
      ELSE IF t.s = "false" THEN RR("ok", FalseV, p + 1, "")
      ELSE IF Ch(t.s, 1) = "$" THEN
        IF ~ph.has THEN RR("unspec", NilV, p + 1, "placeholder-without-map")
        ELSE RR("ok", IF t.s \in DOMAIN ph.m THEN ph.m[t.s] ELSE NilV, p + 1, "")
      ELSE RR("ok", SymV(t.s), p + 1, "")
    ELSE \* t.k = "ch"
      IF MacroName(t.s) # "" THEN
        LET r == ReadForm(toks, p + 1, ph) IN
          IF r.st = "ok" THEN RR("ok", ListV(<<SymV(MacroName(t.s)), r.v>>), r.p, "") ELSE r
      ELSE IF t.s = "^" THEN
        LET r1 == ReadForm(toks, p + 1, ph) IN
          IF r1.st # "ok" THEN r1
          ELSE LET r2 == ReadForm(toks, r1.p, ph) IN
            IF r2.st # "ok" THEN r2
            ELSE RR("ok", ListV(<<SymV("with-meta"), r2.v, r1.v>>), r2.p, "")
      ELSE IF t.s = "(" THEN
        LET r == ReadSeq(toks, p + 1, ph, ")", <<>>) IN IF r.st = "ok" THEN RR("ok", ListV(r.v), r.p, "") ELSE r
      ELSE IF t.s = "[" THEN
        LET r == ReadSeq(toks, p + 1, ph, "]", <<>>) IN IF r.st = "ok" THEN RR("ok", VecV(r.v), r.p, "") ELSE r
      ELSE IF t.s = "{" THEN
        LET r == ReadSeq(toks, p + 1, ph, "}", <<>>) IN
          IF r.st # "ok" THEN r
          ELSE IF Len(r.v) % 2 = 1 THEN RR("malformed", NilV, r.p, "odd-map")
          ELSE LET pm == PairsToMap(r.v, 1, EmptyMap) IN
            IF pm.ok THEN RR("ok", MapV(pm.m), r.p, "") ELSE RR("malformed", NilV, r.p, "map-key")
      ELSE IF t.s = "#{" THEN
        LET r == ReadSeq(toks, p + 1, ph, "}", <<>>) IN
          IF r.st # "ok" THEN r
          ELSE IF \E k \in 1..Len(r.v) : ~IsKeyable(r.v[k]) THEN RR("malformed", NilV, r.p, "set-member")
          ELSE RR("ok", SetV([k \in {KeyOf(r.v[j]) : j \in 1..Len(r.v)} |-> NilV]), r.p, "")
      ELSE IF t.s \in {")", "]", "}"} THEN RR("malformed", NilV, p, "stray")
      ELSE IF t.s \in {"«", "»"} THEN RR("unspec", NilV, p, "constructor")
      ELSE RR("ok", SymV(t.s), p + 1, "")

\* elements up to the closer `cl`; r.v is the element SEQUENCE here
ReadSeq(toks, p, ph, cl, acc) ==
  IF p > Len(toks) THEN RR("incomplete", NilV, p, cl)
  ELSE IF toks[p].k = "ch" /\ toks[p].s = cl THEN RR("ok", acc, p + 1, "")
  ELSE LET r == ReadForm(toks, p, ph) IN
    IF r.st # "ok" THEN r ELSE ReadSeq(toks, r.p, ph, cl, Append(acc, r.v))

(***************************************************************************)
(* Read one expression from a text.                                        *)
(*   "ok" v | "empty" | "incomplete" closer | "malformed" | "lexerr" why   *)
(*   | "unspec"                                                            *)
(***************************************************************************)
\* U+2400 stands for the NUL character (which a TLA+ string cannot hold; the harness puts the real one in).  NUL is not
\* a character of any token, string or comment: a text holding one is no expression and no prefix of one -- it is
\* rejected, and appending closers cannot complete it.
NulCh == "␀"
RECURSIVE HasNul(_, _)
HasNul(s, i) == i <= Len(s) /\ (Ch(s, i) = NulCh \/ HasNul(s, i + 1))
ReadWith(s, ph) ==
  IF HasNul(s, 1) THEN RR("malformed", NilV, 0, "nul") ELSE
  LET lx == Tokenize(s) IN
    IF lx.st = "unspec" THEN RR("unspec", NilV, 0, lx.why)
    ELSE IF lx.st = "lexerr" THEN
      \* the text stops being a token sequence (a string left open, a bad escape).  When the tokens BEFORE that point
      \* already hold a stray closer, or a complete expression (so that whatever follows is a second one), the text is
      \* malformed whatever the rest is; otherwise the oracle only says "not a token sequence"
      IF lx.toks = <<>> THEN RR("lexerr", NilV, 0, lx.why)
      ELSE LET r == ReadForm(lx.toks, 1, ph) IN
        IF r.st = "malformed" /\ r.closer = "stray" THEN RR("malformed", NilV, r.p, "stray")
        ELSE IF r.st = "ok" THEN RR("malformed", NilV, r.p, "trailing")
        ELSE RR("lexerr", NilV, 0, lx.why)
    ELSE IF lx.toks = <<>> THEN RR("empty", NilV, 0, "")
    ELSE LET r == ReadForm(lx.toks, 1, ph) IN
      IF r.st = "ok" /\ r.p <= Len(lx.toks) THEN RR("malformed", NilV, r.p, "trailing") ELSE r

NoPh == [has |-> FALSE, m |-> <<>>]
Ph(m) == [has |-> TRUE, m |-> m]
Read(s) == ReadWith(s, NoPh)

\* all top-level forms of a text (used to load preludes and program texts)
RECURSIVE ReadAllFrom(_, _, _)
ReadAllFrom(toks, p, acc) ==
  IF p > Len(toks) THEN acc
  ELSE LET r == ReadForm(toks, p, NoPh) IN
    IF r.st = "ok" THEN ReadAllFrom(toks, r.p, Append(acc, r.v))
    ELSE Assert(FALSE, <<"ReadAll: bad text at token", p, r>>)
ReadAll(s) == ReadAllFrom(Tokenize(s).toks, 1, <<>>)
Parse(s) == LET r == Read(s) IN IF r.st = "ok" THEN r.v ELSE Assert(FALSE, <<"Parse", s, r>>)

(***************************************************************************)
(* Printer (readable form).                                                *)
(***************************************************************************)
RECURSIVE Escape(_, _), DoubleRaw(_, _)
Escape(s, i) == IF i > Len(s) THEN ""
                ELSE LET c == Ch(s, i) IN
                  (IF c = "\\" THEN "\\\\" ELSE IF c = "\"" THEN "\\\"" ELSE IF c = "\n" THEN "\\n" ELSE c)
                  \o Escape(s, i + 1)
DoubleRaw(s, i) == IF i > Len(s) THEN ""
                   ELSE (IF Ch(s, i) = "¬" THEN "¬¬" ELSE Ch(s, i)) \o DoubleRaw(s, i + 1)

RECURSIVE HasNewline(_, _)
HasNewline(s, i) == i <= Len(s) /\ (Ch(s, i) = "\n" \/ HasNewline(s, i + 1))
\* raw form for one-line JSON-looking strings (a printed value never spans lines: C15)
JsonLooking(s) == Len(s) >= 3 /\ SubSeq(s, 1, 2) = "{\"" /\ Ch(s, Len(s)) = "}" /\ ~HasNewline(s, 1)

PrintStr(s) == IF JsonLooking(s) THEN "¬" \o DoubleRaw(s, 1) \o "¬"
               ELSE "\"" \o Escape(s, 1) \o "\""

RECURSIVE Join(_, _)
Join(ss, sep) == IF ss = <<>> THEN "" ELSE IF Len(ss) = 1 THEN ss[1] ELSE ss[1] \o sep \o Join(Tail(ss), sep)

RECURSIVE PrStr(_)
PrStr(v) ==
  CASE v.t = "nil" -> "nil"
    [] v.t = "bool" -> IF v.i = 1 THEN "true" ELSE "false"
    [] v.t = "int" -> IF v.s # "" THEN v.s ELSE ToString(v.i)
    [] v.t = "str" -> PrintStr(v.s)
    [] v.t = "kw" -> ":" \o v.s
    [] v.t = "sym" -> v.s
    [] v.t = "list" -> "(" \o Join([k \in 1..Len(v.xs) |-> PrStr(v.xs[k])], " ") \o ")"
    [] v.t = "vec" -> "[" \o Join([k \in 1..Len(v.xs) |-> PrStr(v.xs[k])], " ") \o "]"
    [] v.t = "map" -> LET ks == SetToSeq(DOMAIN v.m) IN
         "{" \o Join([k \in 1..Len(ks) |-> PrStr(KeyVal(ks[k])) \o " " \o PrStr(v.m[ks[k]])], " ") \o "}"
    [] v.t = "set" -> LET ks == SetToSeq(DOMAIN v.m) IN
         "#{" \o Join([k \in 1..Len(ks) |-> PrStr(KeyVal(ks[k]))], " ") \o "}"
    [] OTHER -> "#<" \o v.t \o ">"
=============================================================================
