------------------------------- MODULE GenC18 -------------------------------
(***************************************************************************)
(* C18: installing a debugger stepper does not change what programs        *)
(* compute.  Programs: every program up to MaxSize nodes of the C01        *)
(* grammar (special forms, closures), the C03 grammar (try/catch/finally)  *)
(* and the C12 macro grammar.  The definition layer gives the outcome      *)
(* (which, by definition, does not depend on any stepper) and the SET of   *)
(* (form, visible bindings) pairs handed to an evaluation (Def: visits).   *)
(* The harness crosses each program with every cyclic command script up to *)
(* a length bound and checks: same result/error/effects as the definition, *)
(* and every (form, scope) the callback is handed is in the visit set.     *)
(***************************************************************************)
EXTENDS GenProg, Grammars

CONSTANTS Which, MaxSize

\* "cx": programs that end their own context part-way (the probe cancel!); what they compute is left to the code
\* (the definition layer abstains: cancellation is C07's subject), but it is the same with and without a stepper
CXG == Grammar(<<"1", "x", "(cancel!)", "(trace! 2)">>,
               <<"(list _1 1)", "(list 0 _1 x (trace! 3))", "(do _1 1)", "(if _1 1 2)", "[_1 1]", "(let [a _1] a 1)",
                 "(try _1 (catch e (trace! :c) 1))", "((fn [a b] b) _1 1)",
                 \* SHORT special forms in tail position of a longer one (what they compute is left to the code, too)
                 "(do (trace! 5) _1 (def q))", "(do 7 _1 (if x))", "(let [a 1] _1 (if a))", "(do _1 (trace! 6) (do))",
                 "(if x (do 8 _1 (def q)) 9)", "((fn [a] (trace! a) _1 (if a)) 1)">>,
               <<"(list _1 _2)", "(do _1 _2)", "(let [a _1] _2)">>, <<>>)
\* "cl": a long tail loop (21000 iterations: a nested evaluation per step when a stepper is installed); the definition
\* layer abstains (too long to evaluate there), the runs with and without a stepper must agree
CLG == Grammar(<<"(long-loop! 21000)">>, <<"(do 1 _1)", "(list _1 2)">>, <<>>, <<>>)
G == CASE Which = "c01" -> C01G [] Which = "c03" -> C03G [] Which = "c12" -> C12GM [] Which = "cx" -> CXG [] Which = "cl" -> CLG
CtxForms == CASE Which = "c01" -> C01CtxForms [] Which = "c03" -> C03CtxForms [] Which = "c12" -> C12CtxForms
              [] Which = "cx" -> C01CtxForms [] Which = "cl" -> C01CtxForms

ASSUME InitRegisters
ASSUME SetContext(CtxForms)
ASSUME TLCSet(3, Norm(G))
ASSUME TLCSet(4, Norm(CountTab(G, MaxSize, <<>>)))
ASSUME PrintT("CTX " \o ToJson([name |-> Which, forms |-> CtxForms]))

VARIABLES sz, idx, ph
Init == ph = 0 /\ sz \in 1..MaxSize /\ idx \in 0..(TLCGet(4)[sz] - 1)
Next == /\ ph = 0 /\ ph' = 1 /\ UNCHANGED <<sz, idx>>
        /\ LET prog == Decode(TLCGet(3), TLCGet(4), sz, idx)
               r == RunInCtxTracked(<<prog>>)
               c == [kind |-> "stepper", tag |-> Which \o ":" \o HeadTag(prog), src |-> PrStr(prog), ctx |-> Which,
                     forms |-> <<prog>>, sz |-> sz, idx |-> idx, allow |-> Outcome(r, {"x", "y", "e"})]
           IN PrintT("CASE " \o ToJson(c))
Spec == Init /\ [][Next]_<<sz, idx, ph>>
=============================================================================
