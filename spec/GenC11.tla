------------------------------- MODULE GenC11 -------------------------------
(***************************************************************************)
(* C11: concurrent evaluations on one environment.  A pool of program      *)
(* templates (own global names carry the thread number %T), each using     *)
(* local scopes, closures, macros incl. cond -> ->> and or, gensym,        *)
(* memoize, atoms, try/catch/finally, tail loops.  The definition layer    *)
(* gives each program's SOLO outcome; the generator emits every SET of     *)
(* SetSize programs to be run simultaneously on one environment.           *)
(***************************************************************************)
EXTENDS Def, Json

CONSTANT SetSize

RECURSIVE Rep(_, _)
Rep(t, n) == IF n = 0 THEN "" ELSE t \o Rep(t, n - 1)
Redefs == Rep("(defmacro smac (fn [x] (list 'quote x))) ", 120)
Pool == <<
  "(def acc%T (fn [n a] (if (< n 1) a (acc%T (- n 1) (+ a n))))) (trace! (acc%T 20 0))",
  "(def mk%T (fn [k] (fn [x] (+ x k)))) (def add%T (mk%T 5)) (trace! (map add%T [1 2 3]))",
  "(trace! (let [x 1 y (+ x 1)] (let [x (+ y 10)] (list x y %T))))",
  "(trace! (cond false 1 (= 1 2) 2 true (and 1 (or false :ok))))",
  "(trace! (-> %T inc (+ 2))) (trace! (->> [1 2] (map inc)))",
  "(def g%T (gensym)) (trace! (symbol? g%T)) (trace! (= g%T (gensym)))",
  "(def fib%T (memoize (fn [n] (if (< n 2) n (+ (fib%T (- n 1)) (fib%T (- n 2))))))) (trace! (fib%T 9))",
  "(trace! (try (throw {:who %T}) (catch e (get e :who))))",
  "(defmacro m%T (fn [a] `(list ~a ~a))) (trace! (m%T (+ 1 %T)))",
  "(def a%T (atom 0)) (map (fn [i] (swap! a%T + i)) [1 2 3 4]) (trace! @a%T)",
  "(trace! (reduce + 0 (range 0 10))) (trace! (every? (fn [q] (< q 5)) [1 2 3]))",
  "(def v%T [1 2 3]) (trace! (conj v%T %T)) (trace! (assoc {:a 1} :b %T))",
  "(trace! (try (undefined-%T 1) (catch e :caught)))",
  "(def cnt%T (fn [n] (if (< n 1) :done (cnt%T (- n 1))))) (trace! (cnt%T 100))",
  "(trace! (let [e 1] (try (throw 2) (catch e (+ e %T)) (finally (trace! e)))))",
  "(def x%T 1) (def x%T (+ x%T 1)) (trace! (let [x%T 10] (def y%T x%T) x%T)) (trace! x%T)",
  "(trace! (let [fu (future (+ 1 %T)) q 2 r (+ q 1) s (list q r)] (list @fu q r s)))",
  "(def fu%T (future (reduce + 0 [1 2 3 %T]))) (trace! (let [w @fu%T] (list w @fu%T)))",
  \* programs that only READ shared globals (defined before the concurrent phase, read from text so that their
  \* sequences are the reader's own) and derive new values from them
  "(trace! (concat sv [%T])) (trace! (concat sl (list %T))) (trace! sv)",
  "(trace! (conj sv %T)) (trace! (cons %T sl)) (trace! (conj sl %T))",
  "(trace! `(~@sv ~(+ 0 %T))) (trace! `[~@sl %T]) (trace! `(~@sr %T))",
  "(trace! (assoc sm :k %T)) (trace! (dissoc sm :a)) (trace! (merge sm {:a %T})) (trace! sm)",
  "(trace! (apply list %T sv)) (trace! (map (fn [q] (+ q %T)) sr)) (trace! (concat sr [%T]))",
  "(trace! (let [w (concat sv [%T %T])] (list (count w) (nth w 3) w)))",
  \* ... and look at the derived value again a little later
  "(let [w (concat sv [%T]) u (conj sv %T) q `(~@sv %T)] (sleep 3) (trace! (list w u q sv)))",
  "(let [w (concat sl [%T]) u (conj sl %T) k (assoc sm :k %T)] (sleep 3) (trace! (list w u k sl sm)))",
  \* macro expansions that are NOT fresh lists: the macro's own rest list (it aliases the call form inside the shared
  \* function's body) and a template held in a shared global; expanded by several evaluations at once
  "(trace! (shf %T)) (trace! (mtmpl)) (trace! (shf (mtmpl)))",
  \* a def inside a parameterless function / a future's body binds in THAT scope: the same local name in every program
  "(def mkl%T (fn [] (def tmp %T) (sleep 2) tmp)) (trace! (mkl%T)) (trace! (try tmp (catch e :unbound)))",
  "(trace! (let [fu (future (do (def loc %T) (sleep 2) loc))] @fu)) (trace! (try loc (catch e :unbound)))",
  \* a future held in a shared global, already finished, read by several evaluations at once
  "(trace! (list @sfut %T @sfut)) (trace! (map (fn [i] (+ i @sfut)) [1 2 3 %T]))",
  "(def many%T (concat (range 0 50) (range 0 50) (range 0 50))) (trace! (count (map (fn [i] @sfut) many%T))) " \o
  "(trace! (reduce + %T (map (fn [i] @sfut) (range 0 50)))) (trace! (count (map (fn [i] (+ i @sfut)) many%T)))",
  \* a SHARED macro, redefined (with the same definition) by one evaluation while others call it: "every global
  \* definition is seen entirely or not at all": a reader never finds the name bound to something that is not the macro
  \* (its operand is an undefined call: evaluated only if the name is, for a moment, an ordinary function)
  \* "any number of evaluations including futures": 40 futures alive at once, each awaiting a future it starts itself
  "(def outer%T (map (fn [i] (future (do (sleep 30) @(future (+ i %T))))) (range 0 40))) (trace! (reduce + 0 (map deref outer%T)))",
  Redefs \o "(trace! (smac (undefined-thing %T)))",
  "(def many%T (concat (range 0 50) (range 0 50) (range 0 50))) (trace! (count (map (fn [i] (smac (undefined-thing i))) many%T))) " \o
  "(trace! (count (map (fn [i] (smac (undefined-thing i %T))) many%T))) (trace! (smac (undefined-thing)))" >>
SharedText == "(def sv [1 2 3]) (def sl '(10 20 30)) (def sm {:a 1 :b 2}) (def sr (rest [0 1 2 3 4 5])) " \o
              "(defmacro mrest (fn [& xs] xs)) (def shf (fn [a] (mrest + a (mrest + 1 0)))) " \o
              "(def tmpl (list '+ 1 (list '+ 2 3))) (defmacro mtmpl (fn [] tmpl)) " \o
              "(def sfut (future (reduce + 0 [1 2 3]))) (def sfutv @sfut) (defmacro smac (fn [x] (list 'quote x)))"
NP == Len(Pool)

RECURSIVE SubstT(_, _, _)
SubstT(s, i, t) == IF i > Len(s) THEN ""
                   ELSE IF i + 1 <= Len(s) /\ SubSeq(s, i, i + 1) = "%T" THEN t \o SubstT(s, i + 2, t)
                   ELSE SubSeq(s, i, i) \o SubstT(s, i + 1, t)
Prog(p, t) == ReadAll(SubstT(Pool[p], 1, ToString(t)))

ASSUME InitRegisters
ASSUME SetContext(ReadAll(SharedText))

\* all strictly increasing index tuples of length SetSize... enumerated as SetSize independent indices with i1 < i2 < i3
VARIABLES i1, i2, i3, ph
vars == <<i1, i2, i3, ph>>
Init == /\ ph = 0 /\ i1 \in 1..NP /\ i2 \in 1..NP /\ i1 <= i2
        /\ IF SetSize >= 3 THEN i3 \in 1..NP /\ i2 <= i3 ELSE i3 = 0

Next == /\ ph = 0 /\ ph' = 1 /\ UNCHANGED <<i1, i2, i3>>
        /\ LET idx == IF SetSize >= 3 THEN <<i1, i2, i3>> ELSE <<i1, i2>>
               progs == [k \in 1..Len(idx) |-> Prog(idx[k], k)]
               outs == [k \in 1..Len(idx) |-> Outcome(RunInCtx(progs[k]), {})]
               c == [kind |-> "concurrent", tag |-> "set", shared |-> SharedText, src |-> ToString(idx), progs |-> progs, allows |-> outs,
                     texts |-> [k \in 1..Len(idx) |-> SubstT(Pool[idx[k]], 1, ToString(k))]]
           IN PrintT("CASE " \o ToJson(c))
Spec == Init /\ [][Next]_vars
=============================================================================
