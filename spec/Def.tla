-------------------------------- MODULE Def ---------------------------------
(***************************************************************************)
(* Definition layer: what a jig/lisp program MEANS.  A big-step evaluator  *)
(* written from the mal guide as amended by the README (not from mal.go):  *)
(*   lexical scoping, innermost binding wins; sequential let; def binds in *)
(*   the current scope and returns the value; closures capture their       *)
(*   defining scope; only nil and false are falsy; only the selected if    *)
(*   branch is evaluated; do/let/fn bodies evaluate every form in order    *)
(*   and return the last (nil when empty); call arguments are evaluated    *)
(*   exactly once, left to right, before the call; & rest parameters;      *)
(*   macros receive operands unevaluated and their expansion is evaluated  *)
(*   in the caller's scope; quasiquote is TEMPLATE SUBSTITUTION (not the   *)
(*   cons/concat rewrite); try/catch/finally as stated in property C03;    *)
(*   atoms sequentially; effects through the probe builtin trace!.         *)
(*                                                                         *)
(* State  st = [envs, atoms, eff, fuel]                                    *)
(*   envs  : Seq([o : outer scope id or 0, b : STRING -> Node])            *)
(*   atoms : Seq(Node)           heap of atom cells                        *)
(*   eff   : Seq(Node)           ordered effect log (arguments of trace!)  *)
(*   fuel  : Nat                 bounds the recursion so that TLC stops    *)
(*   depth : Nat                 TAIL-CALL DISCIPLINE (C08): number of      *)
(*                               enclosing NON-TAIL evaluations.  A form in *)
(*                               tail position (last form of a fn/do/let   *)
(*                               body, selected if branch, macro expansion,*)
(*                               quasiquote result, closure application)   *)
(*                               is evaluated at the SAME depth; every     *)
(*                               other sub-evaluation at depth + 1.        *)
(*   depths: Seq(Nat)            depth seen by each call of the probe       *)
(*                               builtin depth!                            *)
(*   visits: set of <<form, bindings>> handed to an evaluation (C18)       *)
(* Result r = [k, v, st],  k \in                                           *)
(*   "val"     v is the value                                              *)
(*   "thr"     a lisp value v was thrown                                   *)
(*   "err"     a host error of class v.s was raised (undefined symbol,     *)
(*             not a function, arity, builtin domain error, raise!, boom!) *)
(*   "div"     fuel exhausted (program dropped, or kept for C07)           *)
(*   "unspec"  the definition is silent: the oracle abstains               *)
(***************************************************************************)
EXTENDS Coll

R(k, v, st) == [k |-> k, v |-> v, st |-> st]
Ok(r) == r.k = "val"

SpecialForms == {"def", "let", "quote", "quasiquote", "quasiquoteexpand", "defmacro",
                 "macroexpand", "try", "do", "if", "fn"}

\* builtins that need the evaluator or the state
StateNames == {"trace!", "throw", "atom", "deref", "reset!", "swap!", "apply", "map", "eval",
               "update", "update-in", "raise!", "boom!", "boom-str!", "rawraise!", "rawboom!", "rawboom-str!", "go-error", "error-string", "unwrap-error", "panic", "cancel!", "long-loop!", "depth!", "future-call",
               "sleep", "future-done?", "future-cancelled?", "future-cancel"}
BuiltinNames == PureNames \cup StateNames

\* ---------------------------------------------------------------- scopes
NewScope(st, outer, b) == [st EXCEPT !.envs = Append(@, [o |-> outer, b |-> b])]
LastScope(st) == Len(st.envs)
Bind(st, e, name, v) == [st EXCEPT !.envs[e].b = MapPut(@, name, v)]

RECURSIVE Lookup(_, _, _)
Lookup(envs, e, name) ==
  IF e = 0 THEN [found |-> FALSE, v |-> NilV]
  ELSE IF name \in DOMAIN envs[e].b THEN [found |-> TRUE, v |-> envs[e].b[name]]
  ELSE Lookup(envs, envs[e].o, name)

IsSymNamed(a, name) == a.t = "sym" /\ a.s = name
HeadIs(a, name) == a.t = "list" /\ Len(a.xs) >= 1 /\ IsSymNamed(a.xs[1], name)

\* parameter lists: symbols, optionally ending in  & rest
ParamsOk(p) ==
  /\ p.t \in {"list", "vec"}
  /\ \A k \in 1..Len(p.xs) : p.xs[k].t = "sym"
  /\ \A k \in 1..Len(p.xs) : p.xs[k].s = "&" => k = Len(p.xs) - 1
  /\ (Len(p.xs) >= 1 => p.xs[Len(p.xs)].s # "&")
IsVariadic(p) == Len(p.xs) >= 2 /\ p.xs[Len(p.xs) - 1].s = "&"
NFixed(p) == IF IsVariadic(p) THEN Len(p.xs) - 2 ELSE Len(p.xs)

BindParams(p, args) ==
  LET nf == NFixed(p)
      fixed == [x \in {p.xs[k].s : k \in 1..nf} |-> args[CHOOSE k \in 1..nf : p.xs[k].s = x /\ \A j \in (k+1)..nf : p.xs[j].s # x]]
  IN IF IsVariadic(p) THEN MapPut(fixed, p.xs[Len(p.xs)].s, ListV(SubSeq(args, nf + 1, Len(args)))) ELSE fixed

\* is `a` self-evaluating with no sub-evaluation at all?
RECURSIVE Constant(_)
Constant(a) ==
  \/ a.t \in {"nil", "bool", "int", "str", "kw", "set", "fn", "bfn", "atom", "err"}
  \/ a.t = "list" /\ a.xs = <<>>
  \/ a.t = "vec" /\ \A k \in 1..Len(a.xs) : Constant(a.xs[k])
  \/ a.t = "map" /\ \A k \in DOMAIN a.m : Constant(a.m[k])

\* (fn params body...) with a well-formed parameter list, `fn` not rebound: evaluates to a closure, no effect, no error
ClosureLiteral(a, e, st) ==
  /\ a.t = "list" /\ Len(a.xs) >= 2 /\ a.xs[1] = SymV("fn") /\ ParamsOk(a.xs[2])
  /\ ~Lookup(st.envs, e, "fn").found

\* split (try body... [(catch s h...)] [(finally f...)])
TryParts(a) ==
  LET n == Len(a.xs)
      last == IF n >= 2 THEN a.xs[n] ELSE NilV
      prel == IF n >= 3 THEN a.xs[n - 1] ELSE NilV
      hasF == HeadIs(last, "finally")
      c == IF hasF THEN prel ELSE last
      hasC == HeadIs(c, "catch")
      nb == n - (IF hasF THEN 1 ELSE 0) - (IF hasC THEN 1 ELSE 0)
  IN [body |-> SubSeq(a.xs, 2, nb), hasC |-> hasC, hasF |-> hasF,
      csym |-> IF hasC /\ Len(c.xs) >= 2 THEN c.xs[2] ELSE NilV,
      handler |-> IF hasC THEN SubSeq(c.xs, 3, Len(c.xs)) ELSE <<>>,
      fin |-> IF hasF THEN Tail(last.xs) ELSE <<>>,
      ok |-> (hasC => Len(c.xs) >= 3 /\ c.xs[2].t = "sym")]

\* ------------------------------------------------- visits (C18: what a stepper is handed)
Watch == {"x", "y", "e", "q"}
RECURSIVE AbstractV(_, _)
AbstractV(v, atoms) ==
  CASE v.t = "fn" -> Mk("fn", 0, v.s, <<>>, NoMap)
    [] v.t = "bfn" -> Mk("bfn", 0, "", <<>>, NoMap)
    [] v.t = "atom" -> Mk("atom", 0, "", <<AbstractV(atoms[v.i], atoms)>>, NoMap)
    [] v.t = "err" -> Mk("err", 0, v.s, IF v.s = "user" THEN <<v.xs[1]>> ELSE <<>>, NoMap)
    [] v.t \in {"list", "vec"} -> Mk(v.t, 0, "", [k \in 1..Len(v.xs) |-> AbstractV(v.xs[k], atoms)], NoMap)
    [] v.t = "map" -> Mk("map", 0, "", <<>>, [k \in DOMAIN v.m |-> AbstractV(v.m[k], atoms)])
    [] OTHER -> v
Unbound == Mk("unbound", 0, "", <<>>, NoMap)
Visit(a, e, st) == [f |-> AbstractV(a, st.atoms),
                    b |-> [nm \in Watch |-> LET l == Lookup(st.envs, e, nm) IN
                                              IF l.found THEN AbstractV(l.v, st.atoms) ELSE Unbound]]
Note(a, e, st) == IF st.track THEN [st EXCEPT !.visits = @ \cup {Visit(a, e, st)}] ELSE st

\* quasiquote AS CODED (mal.go quasiquote / qq_loop): the rewrite into cons / concat / vec / quote
RECURSIVE QQRewrite(_), QQLoop(_, _)
QQLoop(xs, i) ==
  IF i > Len(xs) THEN ListV(<<>>)
  ELSE LET x == xs[i] IN
    IF HeadIs(x, "splice-unquote") /\ Len(x.xs) >= 2
    THEN ListV(<<SymV("concat"), x.xs[2], QQLoop(xs, i + 1)>>)
    ELSE ListV(<<SymV("cons"), QQRewrite(x), QQLoop(xs, i + 1)>>)
QQRewrite(t) ==
  IF t.t = "vec" THEN ListV(<<SymV("vec"), QQLoop(t.xs, 1)>>)
  ELSE IF t.t \in {"map", "sym"} THEN ListV(<<SymV("quote"), t>>)
  ELSE IF t.t = "list" THEN (IF HeadIs(t, "unquote") /\ Len(t.xs) >= 2 THEN t.xs[2] ELSE QQLoop(t.xs, 1))
  ELSE t
\* is every unquote / splice-unquote of the template well formed (has its operand)?
RECURSIVE QQWellFormed(_)
QQWellFormed(t) ==
  IF t.t \in {"list", "vec"} THEN
    /\ (t.t = "list" /\ HeadIs(t, "unquote") => Len(t.xs) >= 2)
    /\ \A k \in 1..Len(t.xs) : (HeadIs(t.xs[k], "splice-unquote") => Len(t.xs[k].xs) >= 2) /\ QQWellFormed(t.xs[k])
  ELSE TRUE

RECURSIVE Ev(_, _, _), EvArgs(_, _, _, _, _), EvBody(_, _, _, _), EvBodySub(_, _, _, _), EvLet(_, _, _, _),
          ApplyFn(_, _, _), QQ(_, _, _), QQSeq(_, _, _, _, _), EvMapLit(_, _, _, _, _),
          Expand(_, _, _), CallBuiltin(_, _, _), MapF(_, _, _, _, _), UpdateIn(_, _, _, _, _), SwapLoop(_, _, _, _)

\* evaluate forms xs[i..] in scope e; value of the last; nil when there is none
\* a sub-evaluation (not in tail position): one level deeper, depth restored afterwards
EvSub(a, e, st) == LET r == Ev(a, e, [st EXCEPT !.depth = @ + 1]) IN [r EXCEPT !.st.depth = st.depth]
ApplySub(f, args, st) == LET r == ApplyFn(f, args, [st EXCEPT !.depth = @ + 1]) IN [r EXCEPT !.st.depth = st.depth]

\* the LAST form is in tail position
EvBody(xs, i, e, st) ==
  \* (an empty body evaluates to nil: the evaluator is handed the constant nil in this scope)
  IF i > Len(xs) THEN R("val", NilV, Note(NilV, e, st))
  ELSE IF i = Len(xs) THEN Ev(xs[i], e, st)
  ELSE LET r == EvSub(xs[i], e, st) IN IF ~Ok(r) THEN r ELSE EvBody(xs, i + 1, e, r.st)

\* no form is in tail position (try body, finally body)
EvBodySub(xs, i, e, st) ==
  IF i > Len(xs) THEN R("val", NilV, st)
  ELSE LET r == EvSub(xs[i], e, st) IN
    IF ~Ok(r) \/ i = Len(xs) THEN r ELSE EvBodySub(xs, i + 1, e, r.st)

\* evaluate xs[i..] left to right; on success v = ListV(values)
EvArgs(xs, i, e, st, acc) ==
  IF i > Len(xs) THEN R("val", ListV(acc), st)
  ELSE LET r == EvSub(xs[i], e, st) IN
    IF ~Ok(r) THEN r ELSE EvArgs(xs, i + 1, e, r.st, Append(acc, r.v))

EvLet(b, i, e, st) ==
  IF i > Len(b) THEN R("val", NilV, st)
  ELSE LET r == EvSub(b[i + 1], e, st) IN
    IF ~Ok(r) THEN r ELSE EvLet(b, i + 2, e, Bind(r.st, e, b[i].s, r.v))

EvMapLit(m, ks, i, e, st) ==
  IF i > Len(ks) THEN R("val", MapV(m), st)
  ELSE LET r == EvSub(m[ks[i]], e, st) IN
    IF ~Ok(r) THEN r ELSE EvMapLit(MapPut(m, ks[i], r.v), ks, i + 1, e, r.st)

\* the macro closure the head of `a` denotes in scope e, if any
MacroOf(a, e, st) ==
  IF a.t = "list" /\ Len(a.xs) >= 1 /\ a.xs[1].t = "sym"
  THEN LET l == Lookup(st.envs, e, a.xs[1].s) IN
         IF l.found /\ l.v.t = "fn" /\ l.v.s = "macro" THEN [is |-> TRUE, f |-> l.v] ELSE [is |-> FALSE, f |-> NilV]
  ELSE [is |-> FALSE, f |-> NilV]

\* expand until the head is no macro; v = the resulting (unevaluated) form
Expand(a, e, st) ==
  IF st.fuel = 0 THEN R("div", NilV, st)
  ELSE LET mc == MacroOf(a, e, st) IN
    IF ~mc.is THEN R("val", a, st)
    ELSE LET r == ApplySub(mc.f, Tail(a.xs), [st EXCEPT !.fuel = @ - 1]) IN
      IF ~Ok(r) THEN r ELSE Expand(r.v, e, r.st)

\* quasiquote as template substitution
QQ(t, e, st) ==
  IF t.t = "list" THEN
    IF HeadIs(t, "unquote") THEN
      IF Len(t.xs) < 2 THEN R("unspec", NilV, st) ELSE EvSub(t.xs[2], e, st)
    ELSE LET r == QQSeq(t.xs, 1, e, st, <<>>) IN IF Ok(r) THEN R("val", ListV(r.v.xs), r.st) ELSE r
  ELSE IF t.t = "vec" THEN
    LET r == QQSeq(t.xs, 1, e, st, <<>>) IN IF Ok(r) THEN R("val", VecV(r.v.xs), r.st) ELSE r
  ELSE R("val", t, st)

QQSeq(xs, i, e, st, acc) ==
  IF i > Len(xs) THEN R("val", ListV(acc), st)
  ELSE LET x == xs[i] IN
    IF HeadIs(x, "splice-unquote") THEN
      IF Len(x.xs) < 2 THEN R("unspec", NilV, st)
      ELSE LET r == EvSub(x.xs[2], e, st) IN
        IF ~Ok(r) THEN r
        ELSE IF IsSeq(r.v) THEN QQSeq(xs, i + 1, e, r.st, acc \o r.v.xs)
        \* splicing a non-sequence must fail, but WHERE relative to the effects of later
        \* unquotes is not prescribed (substitution vs. rewrite differ): abstain
        ELSE R("unspec", NilV, r.st)
    ELSE LET r == QQ(x, e, st) IN
      IF ~Ok(r) THEN r ELSE QQSeq(xs, i + 1, e, r.st, Append(acc, r.v))

\* apply a function value to already evaluated arguments
ApplyFn(f, args, st) ==
  IF f.t = "fn" THEN
    LET p == f.xs[1] IN
      IF Len(args) < NFixed(p) THEN R("err", ErrV("arity"), st)
      ELSE IF ~IsVariadic(p) /\ Len(args) > NFixed(p) THEN R("unspec", NilV, st)
      ELSE LET st1 == NewScope(st, f.i, BindParams(p, args))
               st2 == Note(ListV(<<SymV("do")>> \o Tail(f.xs)), LastScope(st1), st1)
           IN EvBody(Tail(f.xs), 1, LastScope(st2), st2)
  ELSE IF f.t = "bfn" THEN CallBuiltin(f.s, args, st)
  ELSE R("err", ErrV("notfn"), st)

MapF(f, xs, i, st, acc) ==
  IF i > Len(xs) THEN R("val", ListV(acc), st)
  ELSE LET r == ApplySub(f, <<xs[i]>>, st) IN
    IF ~Ok(r) THEN r ELSE MapF(f, xs, i + 1, r.st, Append(acc, r.v))

\* (update-in coll path f): f applied to the value at the path (nil when missing; missing or nil
\* intermediate levels become maps); the empty path returns coll unchanged (tests/stepG_infunctions.mal)
UpdateIn(v, path, i, f, st) ==
  IF i > Len(path) THEN R("val", v, st)
  ELSE LET p == path[i] IN
    IF v.t = "map" /\ IsKeyable(p) THEN
      LET k == KeyOf(p)
          cur == IF k \in DOMAIN v.m THEN v.m[k] ELSE NilV
          r == IF i = Len(path) THEN ApplySub(f, <<cur>>, st)
               ELSE UpdateIn(IF cur.t = "nil" THEN MapV(EmptyMap) ELSE cur, path, i + 1, f, st)
      IN IF ~Ok(r) THEN r ELSE R("val", MapV(MapPut(v.m, k, r.v)), r.st)
    ELSE IF v.t = "vec" /\ p.t = "int" /\ p.i >= 0 /\ p.i < Len(v.xs) THEN
      LET cur == v.xs[p.i + 1]
          r == IF i = Len(path) THEN ApplySub(f, <<cur>>, st)
               ELSE IF cur.t = "nil" THEN R("unspec", NilV, st) ELSE UpdateIn(cur, path, i + 1, f, st)
      IN IF ~Ok(r) THEN r ELSE R("val", VecV([v.xs EXCEPT ![p.i + 1] = r.v]), r.st)
    \* a level that is neither a hash map nor a vector (a set, a list, a scalar) is the wrong kind: an error, the
    \* function is not applied (README: update, update-in supported for hash maps and vectors)
    ELSE IF v.t \notin {"map", "vec", "nil"} THEN R("err", ErrV("builtin"), st)
    ELSE R("unspec", NilV, st)

\* swap!: the update function is applied to the current value; when the atom was written meanwhile (by the update
\* function itself: evaluation is sequential here) the attempt is dropped and swap! starts over with the new value
\* (compare-and-set on the version counter avers, as AtomCas.tla / AtomImpl.tla)
SwapLoop(f, id, extra, st) ==
  LET ver == st.avers[id]
      r == ApplySub(f, <<st.atoms[id]>> \o extra, st)
  IN IF ~Ok(r) THEN r
     ELSE IF r.st.avers[id] = ver THEN R("val", r.v, [r.st EXCEPT !.atoms[id] = r.v, !.avers[id] = @ + 1])
     ELSE IF r.st.fuel <= 0 THEN R("div", NilV, r.st)
     ELSE SwapLoop(f, id, extra, [r.st EXCEPT !.fuel = @ - 1])

CallBuiltin(name, a, st) ==
  LET n == Len(a) IN
  IF name \in PureNames THEN
    LET o == Pure(name, a) IN
      CASE o.k = "val" -> IF o.ord THEN R("val", o.v, st) ELSE R("unspec", NilV, st)
        [] o.k = "err" -> R("err", ErrV("builtin"), st)
        [] o.k = "thr" -> R("thr", o.v, st)
        [] OTHER -> R("unspec", NilV, st)
  ELSE CASE name = "trace!" -> IF n # 1 THEN R("err", ErrV("builtin"), st)
                               ELSE R("val", a[1], [st EXCEPT !.eff = Append(@, a[1])])
    [] name = "throw" -> IF n # 1 THEN R("err", ErrV("builtin"), st)
                         ELSE IF a[1].t = "err" THEN R("err", a[1], st) ELSE R("thr", a[1], st)
    \* host error objects made by the program (README: go-error, unwrap-error, error-string, panic map to Go's
    \* errors.New, errors.Unwrap, Error() and panic): an error of class "user" carrying its message
    [] name = "go-error" -> IF n # 1 THEN R("unspec", NilV, st)
                            ELSE IF a[1].t # "str" THEN R("err", ErrV("builtin"), st)
                            ELSE R("val", Mk("err", 0, "user", <<a[1]>>, NoMap), st)
    [] name = "error-string" -> IF n # 1 THEN R("err", ErrV("builtin"), st)
                                \* (the message of an error that WRAPS another one is not prescribed)
                                ELSE IF a[1].t = "err" /\ a[1].s = "user" /\ Len(a[1].xs) = 1 THEN R("val", a[1].xs[1], st)
                                ELSE IF a[1].t = "err" THEN R("unspec", NilV, st)
                                ELSE R("err", ErrV("builtin"), st)
    [] name = "unwrap-error" -> IF n # 1 THEN R("err", ErrV("builtin"), st)
                                ELSE IF a[1].t = "err" /\ a[1].s = "user" /\ Len(a[1].xs) = 1 THEN R("val", NilV, st)     \* errors.New wraps nothing
                                ELSE IF a[1].t = "err" /\ a[1].s = "user"
                                     THEN R("val", Mk("err", 0, "user", <<a[1].xs[1]>>, NoMap), st)       \* the original of a panic
                                ELSE IF a[1].t = "err" THEN R("unspec", NilV, st)
                                ELSE R("err", ErrV("builtin"), st)
    \* a Go panic: with an error object it arrives as that error, with any other value as that value thrown
    [] name = "panic" -> IF n # 1 THEN R("err", ErrV("builtin"), st)
                         \* ("a panic ... becomes a catchable error that still WRAPS the original": xs[2] marks the wrapper)
                         ELSE IF a[1].t = "err" /\ a[1].s = "user"
                              THEN R("err", Mk("err", 0, "user", <<a[1].xs[1], StrV("wrapped")>>, NoMap), st)
                         ELSE IF a[1].t = "err" THEN R("err", a[1], st) ELSE R("thr", a[1], st)
    \* the probe that ends the context of the running evaluation: what follows is C07's subject
    [] name = "cancel!" -> R("unspec", NilV, st)
    [] name = "raise!" -> R("err", ErrV("raise"), st)
    [] name = "boom!" -> R("err", ErrV("boom"), st)
    \* a Go panic with a NON-error value surfaces as that value thrown (binder convention)
    [] name = "boom-str!" -> R("thr", StrV("boom-str"), st)
    \* the same three, registered as RAW host functions (types.Func, as nscore registers eval), not through the binder
    [] name = "rawraise!" -> R("err", ErrV("raise"), st)
    [] name = "rawboom!" -> R("err", ErrV("boom"), st)
    [] name = "rawboom-str!" -> R("thr", StrV("boom-str"), st)
    [] name = "atom" -> IF n # 1 THEN R("err", ErrV("builtin"), st)
                        ELSE R("val", AtomV(Len(st.atoms) + 1), [st EXCEPT !.atoms = Append(@, a[1]), !.avers = Append(@, 0)])
    [] name = "deref" -> IF n # 1 THEN R("err", ErrV("builtin"), st)
                         ELSE IF a[1].t = "atom" THEN R("val", st.atoms[a[1].i], st)
                         \* a future: its (write-once) outcome, a value or the error it ended with
                         ELSE IF a[1].t = "fut" THEN R(a[1].s, a[1].xs[1], st)
                         ELSE R("err", ErrV("builtin"), st)
    \* a future evaluates its body once, on another thread: the outcome is that of the body.  A body
    \* with effects or that touches shared state is ordered nondeterministically: the oracle abstains.
    [] name = "future-call" ->
         IF n # 1 THEN R("err", ErrV("builtin"), st)
         ELSE LET r == ApplySub(a[1], <<>>, st) IN
           IF r.k \in {"div", "unspec"} THEN r
           ELSE IF r.st.eff # st.eff \/ r.st.atoms # st.atoms \/ r.st.envs[1] # st.envs[1] THEN R("unspec", NilV, r.st)
           \* i = 1: the body slept, i.e. the future may still be running when it is looked at
           ELSE R("val", Mk("fut", IF r.st.slept THEN 1 ELSE 0, r.k, <<r.v>>, NoMap), [r.st EXCEPT !.slept = st.slept])
    [] name = "sleep" -> IF n # 1 \/ a[1].t # "int" THEN R("err", ErrV("builtin"), st) ELSE R("val", NilV, [st EXCEPT !.slept = TRUE])
    \* status of a future whose body has certainly finished (it never slept); otherwise it depends on timing
    [] name \in {"future-done?", "future-cancelled?", "future-cancel"} ->
         IF n # 1 \/ a[1].t # "fut" THEN R("err", ErrV("builtin"), st)
         ELSE IF a[1].i = 1 THEN R("unspec", NilV, st)
         ELSE R("val", BoolV(name = "future-done?"), st)
    [] name = "reset!" -> IF n # 2 THEN R("err", ErrV("builtin"), st)
                          ELSE IF a[1].t # "atom" THEN R("err", ErrV("builtin"), st)
                          ELSE R("val", a[2], [st EXCEPT !.atoms[a[1].i] = a[2], !.avers[a[1].i] = @ + 1])
    [] name = "swap!" -> IF n < 2 THEN R("unspec", NilV, st)
                         ELSE IF a[1].t # "atom" THEN R("err", ErrV("builtin"), st)
                         ELSE SwapLoop(a[2], a[1].i, SubSeq(a, 3, n), st)
    [] name = "apply" -> IF n < 2 THEN R("err", ErrV("builtin"), st)
                         ELSE IF a[n].t = "nil" THEN R("unspec", NilV, st)
                         ELSE IF ~IsSeq(a[n]) THEN R("err", ErrV("builtin"), st)
                         ELSE ApplySub(a[1], SubSeq(a, 2, n - 1) \o a[n].xs, st)
    [] name = "map" -> IF n # 2 THEN R("err", ErrV("builtin"), st)
                       ELSE IF a[2].t = "nil" THEN R("unspec", NilV, st)
                       ELSE IF ~IsSeq(a[2]) THEN R("err", ErrV("builtin"), st)
                       ELSE MapF(a[1], a[2].xs, 1, st, <<>>)
    [] name = "update" ->
         IF n # 3 THEN R("err", ErrV("builtin"), st)
         ELSE IF a[1].t = "map" /\ IsKeyable(a[2]) THEN
           LET k == KeyOf(a[2])
               r == ApplySub(a[3], <<IF k \in DOMAIN a[1].m THEN a[1].m[k] ELSE NilV>>, st)
           IN IF ~Ok(r) THEN r ELSE R("val", MapV(MapPut(a[1].m, k, r.v)), r.st)
         ELSE IF a[1].t = "vec" /\ IsInt(a[2]) /\ a[2].i >= 0 /\ a[2].i < Len(a[1].xs) THEN
           LET r == ApplySub(a[3], <<a[1].xs[a[2].i + 1]>>, st)
           IN IF ~Ok(r) THEN r ELSE R("val", VecV([a[1].xs EXCEPT ![a[2].i + 1] = r.v]), r.st)
         ELSE IF a[1].t \notin {"map", "vec", "nil"} THEN R("err", ErrV("builtin"), st)
         ELSE R("unspec", NilV, st)
    [] name = "update-in" ->
         IF n # 3 THEN R("err", ErrV("builtin"), st)
         ELSE IF a[2].t # "vec" THEN R("err", ErrV("builtin"), st)
         ELSE IF a[1].t = "nil" THEN R("val", NilV, st)
         ELSE UpdateIn(a[1], a[2].xs, 1, a[3], st)
    [] name = "eval" -> IF n # 1 THEN R("unspec", NilV, st) ELSE EvSub(a[1], 1, st)
    [] name = "depth!" -> R("val", IF n >= 1 THEN a[1] ELSE NilV, [st EXCEPT !.depths = Append(@, st.depth)])
    [] OTHER -> R("unspec", NilV, st)

Ev(a, e, st0) ==
  IF st0.fuel = 0 THEN R("div", NilV, st0)
  ELSE LET st == Note(a, e, [st0 EXCEPT !.fuel = @ - 1]) IN
  CASE a.t = "sym" ->
         LET l == Lookup(st.envs, e, a.s) IN
           IF l.found THEN R("val", l.v, st) ELSE R("err", ErrV("undefined"), st)
    [] a.t = "vec" ->
         LET r == EvArgs(a.xs, 1, e, st, <<>>) IN IF Ok(r) THEN R("val", VecV(r.v.xs), r.st) ELSE r
    [] a.t = "map" ->
         \* (a closure literal is as good as a constant here: making a closure has no effect and cannot fail)
         IF Cardinality({k \in DOMAIN a.m : ~Constant(a.m[k]) /\ ~ClosureLiteral(a.m[k], e, st)}) >= 2 THEN R("unspec", NilV, st)
         ELSE EvMapLit(a.m, SetToSeq(DOMAIN a.m), 1, e, st)
    [] a.t = "list" /\ a.xs = <<>> -> R("val", a, st)
    [] a.t = "list" /\ a.xs # <<>> ->
         LET mc == MacroOf(a, e, st) IN
         IF mc.is THEN
           LET x == Expand(a, e, st) IN IF Ok(x) THEN Ev(x.v, e, x.st) ELSE x
         ELSE
         LET h == a.xs[1]  n == Len(a.xs) IN
         IF h.t = "sym" /\ h.s \in SpecialForms THEN
           CASE h.s = "def" ->
                  IF n # 3 \/ a.xs[2].t # "sym" THEN R("unspec", NilV, st)
                  ELSE LET r == EvSub(a.xs[3], e, st) IN
                    IF Ok(r) THEN R("val", r.v, Bind(r.st, e, a.xs[2].s, r.v)) ELSE r
             [] h.s = "let" ->
                  IF n < 2 \/ ~IsSeq(a.xs[2]) \/ Len(a.xs[2].xs) % 2 = 1
                     \/ \E k \in OddIdx(a.xs[2].xs) : a.xs[2].xs[k].t # "sym"
                  THEN R("unspec", NilV, st)
                  ELSE LET st1 == NewScope(st, e, EmptyMap)
                           le == LastScope(st1)
                           r == EvLet(a.xs[2].xs, 1, le, st1)
                       IN IF Ok(r) THEN EvBody(a.xs, 3, le, r.st) ELSE r
             [] h.s = "quote" -> IF n # 2 THEN R("unspec", NilV, st) ELSE R("val", a.xs[2], st)
             [] h.s = "quasiquote" -> IF n # 2 THEN R("unspec", NilV, st)
                                      ELSE IF st.track /\ QQWellFormed(a.xs[2]) THEN Ev(QQRewrite(a.xs[2]), e, st)
                                      ELSE QQ(a.xs[2], e, st)
             \* the expansion as coded (documented in tests/step7_quote.mal)
             [] h.s = "quasiquoteexpand" -> IF n # 2 \/ ~QQWellFormed(a.xs[2]) THEN R("unspec", NilV, st)
                                            ELSE R("val", QQRewrite(a.xs[2]), st)
             [] h.s = "defmacro" ->
                  IF n # 3 \/ a.xs[2].t # "sym" THEN R("unspec", NilV, st)
                  ELSE LET r == EvSub(a.xs[3], e, st) IN
                    IF ~Ok(r) THEN r
                    ELSE IF r.v.t # "fn" THEN R("unspec", NilV, r.st)
                    ELSE LET mf == [r.v EXCEPT !.s = "macro"] IN R("val", mf, Bind(r.st, e, a.xs[2].s, mf))
             [] h.s = "macroexpand" -> IF n # 2 THEN R("unspec", NilV, st) ELSE Expand(a.xs[2], e, st)
             [] h.s = "do" -> EvBody(a.xs, 2, e, st)
             [] h.s = "if" ->
                  IF n \notin {3, 4} THEN R("unspec", NilV, st)
                  ELSE LET c == EvSub(a.xs[2], e, st) IN
                    IF ~Ok(c) THEN c
                    ELSE IF Truthy(c.v) THEN Ev(a.xs[3], e, c.st)
                    ELSE IF n = 4 THEN Ev(a.xs[4], e, c.st) ELSE R("val", NilV, c.st)
             [] h.s = "fn" ->
                  IF n < 2 \/ ~ParamsOk(a.xs[2]) THEN R("unspec", NilV, st)
                  ELSE R("val", FnV(e, a.xs[2], SubSeq(a.xs, 3, n)), st)
             [] h.s = "try" ->
                  LET tp == TryParts(a) IN
                  IF ~tp.ok THEN R("unspec", NilV, st)
                  ELSE LET rb == EvBodySub(tp.body, 1, e, st)
                           rc == IF rb.k \in {"thr", "err"} /\ tp.hasC
                                 THEN LET st1 == NewScope(rb.st, e, (tp.csym.s :> rb.v))
                                      IN EvBody(tp.handler, 1, LastScope(st1), st1)
                                 ELSE rb
                       IN IF rc.k \in {"div", "unspec"} \/ ~tp.hasF THEN rc
                          ELSE LET rf == EvBodySub(tp.fin, 1, e, rc.st) IN
                            IF rf.k \in {"div", "unspec"} THEN rf ELSE R(rc.k, rc.v, rf.st)
         ELSE
           LET r == EvArgs(a.xs, 1, e, st, <<>>) IN
             IF ~Ok(r) THEN r ELSE ApplyFn(r.v.xs[1], Tail(r.v.xs), r.st)
    [] OTHER -> R("val", a, st)

(***************************************************************************)
(* Initial state: global scope 1 holding the builtins, then the prelude    *)
(* (the lisp-defined part of the standard library the programs use),       *)
(* read with Text.Read from its source text and evaluated with Ev.         *)
(***************************************************************************)
Fuel0 == 3000
BaseState == [envs |-> <<[o |-> 0, b |-> [nm \in BuiltinNames |-> BfnV(nm)]]>>,
              atoms |-> <<>>, avers |-> <<>>, eff |-> <<>>, fuel |-> Fuel0, depth |-> 0, depths |-> <<>>,
              track |-> FALSE, visits |-> {}, slept |-> FALSE]

\* transcribed from lib/core/header-basic.lisp and lib/coreextented/header-coreextended.lisp
PreludeText ==
  "(def not (fn (a) (if a false true)))" \o
  "(defmacro cond (fn (& xs) (if (> (count xs) 0) (list 'if (first xs) (if (> (count xs) 1) (nth xs 1) (throw \"odd number of forms to cond\")) (cons 'cond (rest (rest xs)))))))" \o
  "(def inc (fn [a] (+ a 1)))" \o
  "(def dec (fn (a) (- a 1)))" \o
  "(def zero? (fn (n) (= 0 n)))" \o
  "(def identity (fn (x) x))" \o
  "(def gensym (let [counter (atom 0)] (fn [] (symbol (str \"G__\" (swap! counter inc))))))" \o
  "(def reduce (fn (f init xs) (if (empty? xs) init (reduce f (f init (first xs)) (rest xs)))))" \o
  "(defmacro -> (fn (x & xs) (reduce _iter-> x xs)))" \o
  "(def _iter-> (fn [acc form] (if (list? form) `(~(first form) ~acc ~@(rest form)) (list form acc))))" \o
  "(defmacro ->> (fn (x & xs) (reduce _iter->> x xs)))" \o
  "(def _iter->> (fn [acc form] (if (list? form) `(~(first form) ~@(rest form) ~acc) (list form acc))))" \o
  "(defmacro or (fn [& xs] (if (< (count xs) 2) (first xs) (let [r (gensym)] `(let (~r ~(first xs)) (if ~r ~r (or ~@(rest xs))))))))" \o
  "(def every? (fn (pred xs) (cond (empty? xs) true (pred (first xs)) (every? pred (rest xs)) true false)))" \o
  "(def some (fn (pred xs) (if (empty? xs) nil (or (pred (first xs)) (some pred (rest xs))))))" \o
  "(defmacro and (fn (& xs) (cond (empty? xs) true (= 1 (count xs)) (first xs) true (let (condvar (gensym)) `(let (~condvar ~(first xs)) (if ~condvar (and ~@(rest xs)) ~condvar))))))" \o
  "(def *host-language* \"go\") (def *ARGV* ())" \o
  "(def reduce-kv (fn [f init xs] (if (empty? xs) init (reduce-kv f (f init (nth xs 0) (nth xs 1)) (rest (rest xs))))))" \o
  "(def foldr (let [rec (fn [f xs acc index] (if (< index 0) acc (rec f xs (f (nth xs index) acc) (- index 1))))] (fn [f init xs] (rec f xs init (- (count xs) 1)))))" \o
  "(def find-type (fn [obj] (cond (symbol? obj) :mal/symbol (keyword? obj) :mal/keyword (atom? obj) :mal/atom (nil? obj) :mal/nil (true? obj) :mal/boolean (false? obj) :mal/boolean (number? obj) :mal/number (string? obj) :mal/string (macro? obj) :mal/macro true (let [metadata (meta obj) type (if (map? metadata) (get metadata :type))] (cond (keyword? type) type (list? obj) :mal/list (vector? obj) :mal/vector (map? obj) :mal/map (fn? obj) :mal/function true (throw \"unknown MAL value in protocols\"))))))" \o
  "(defmacro defprotocol (fn [proto-name & methods] (let [drop2 (fn [args] (if (= 2 (count args)) () (cons (first args) (drop2 (rest args))))) rewrite (fn [method] (let [name (first method) args (nth method 1) argc (count args) varargs? (if (<= 2 argc) (= '& (nth args (- argc 2)))) dispatch `(get (get @~proto-name (find-type ~(first args))) ~(keyword (str name))) body (if varargs? `(apply ~dispatch ~@(drop2 args) ~(nth args (- argc 1))) (cons dispatch args))] (list 'def name (list 'fn args body))))] `(do ~@(map rewrite methods) (def ~proto-name (atom {}))))))" \o
  "(def extend (fn [type proto methods & more] (do (swap! proto assoc type methods) (if (first more) (apply extend type more)))))" \o
  "(def satisfies? (fn [protocol obj] (contains? @protocol (find-type obj))))" \o
  "(defmacro future (fn [& body] `(future-call (fn [] ~@body))))" \o
  "(def memoize (fn [f] (let [mem (atom {})] (fn [& args] (let [key (str args)] (if (contains? @mem key) (get @mem key) (let [ret (apply f args)] (do (swap! mem assoc key ret) ret))))))))"

PreludeForms == ReadAll(PreludeText)
State0 == LET r == EvBody(PreludeForms, 1, 1, BaseState) IN
            IF Ok(r) THEN [r.st EXCEPT !.fuel = Fuel0] ELSE Assert(FALSE, <<"prelude failed", r.k, r.v>>)

\* TLC re-evaluates recursive constant definitions on every use, so the evaluated
\* prelude is cached in TLC register 1 (set once, by the main thread, from an ASSUME
\* of the model being run: ASSUME InitRegisters) and a per-model context in register 2.
InitRegisters == TLCSet(1, Norm(State0))
Base == TLCGet(1)
SetContext(forms) == TLCSet(2, Norm(LET r == EvBody(forms, 1, 1, State0) IN
                                 IF Ok(r) THEN [r.st EXCEPT !.fuel = Fuel0] ELSE Assert(FALSE, <<"context failed", r.k>>)))
CtxBase == TLCGet(2)

\* Run a program (sequence of top-level forms) in a fresh environment
Run(forms) == EvBody(forms, 1, 1, Base)
RunText(s) == Run(ReadAll(s))
\* every top-level form is evaluated even when an earlier one failed (a REPL session)
RECURSIVE RunContinuingFrom(_, _, _)
RunContinuingFrom(forms, i, st) ==
  IF i > Len(forms) THEN R("val", NilV, st)
  ELSE LET r == Ev(forms[i], 1, st) IN
    IF r.k \in {"div", "unspec"} THEN r ELSE RunContinuingFrom(forms, i + 1, r.st)
RunContinuing(forms) == RunContinuingFrom(forms, 1, Base)

\* ... after the model's context forms
RunInCtx(forms) == EvBody(forms, 1, 1, CtxBase)
\* ... recording every (form, visible bindings) handed to the evaluator
RunInCtxTracked(forms) == EvBody(forms, 1, 1, [CtxBase EXCEPT !.track = TRUE])

\* observable outcome of a run: kind, value, effect log, selected globals
Global(st, name) == IF name \in DOMAIN st.envs[1].b THEN st.envs[1].b[name] ELSE Mk("unbound", 0, "", <<>>, NoMap)

\* closures, builtins, atoms are compared by kind only
RECURSIVE Abstract(_, _)
Abstract(v, st) ==
  CASE v.t = "fn" -> Mk("fn", 0, v.s, <<>>, NoMap)
    [] v.t = "bfn" -> Mk("bfn", 0, "", <<>>, NoMap)
    [] v.t = "atom" -> Mk("atom", 0, "", <<Abstract(st.atoms[v.i], st)>>, NoMap)
    [] v.t = "fut" -> Mk("fut", 0, "", <<>>, NoMap)
    [] v.t = "err" -> Mk("err", 0, v.s, IF v.s = "user" THEN <<v.xs[1]>> ELSE <<>>, NoMap)
    [] v.t \in {"list", "vec"} -> Mk(v.t, 0, "", [k \in 1..Len(v.xs) |-> Abstract(v.xs[k], st)], NoMap)
    [] v.t = "map" -> Mk("map", 0, "", <<>>, [k \in DOMAIN v.m |-> Abstract(v.m[k], st)])
    [] OTHER -> v

RECURSIVE SetToSeqAny(_)
SetToSeqAny(S) == IF S = {} THEN <<>> ELSE LET x == CHOOSE y \in S : TRUE IN <<x>> \o SetToSeqAny(S \ {x})

Outcome(r, globals) ==
  [k |-> r.k,
   v |-> IF r.k \in {"val", "thr", "err"} THEN Abstract(r.v, r.st) ELSE NilV,
   eff |-> [i \in 1..Len(r.st.eff) |-> Abstract(r.st.eff[i], r.st)],
   g |-> [nm \in globals |-> Abstract(Global(r.st, nm), r.st)],
   depths |-> r.st.depths,
   visits |-> SetToSeqAny(r.st.visits)]
=============================================================================
