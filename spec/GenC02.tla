------------------------------- MODULE GenC02 -------------------------------
(***************************************************************************)
(* C02: values are immutable.  IMPLEMENTATION-SHAPED model of how core.go  *)
(* builds sequences out of Go slices: a heap of backing arrays and slice   *)
(* headers [arr, off, len, cap].  Go's append writes IN PLACE when         *)
(* len < cap and otherwise allocates (new capacity nondeterministic here). *)
(* Every sequence builtin is transcribed at this level: which ones copy,   *)
(* which ones return a window onto the argument's array, which ones        *)
(* append onto the argument's slice.  Maps and sets are copy-on-write in   *)
(* the code and are modelled functionally.                                 *)
(*                                                                         *)
(* State machine: a HISTORY of operations, each applied to values produced *)
(* earlier in the same history.  Invariant Immutable (the abstract value   *)
(* of every earlier name never changes) is EXPECTED TO FAIL on the design  *)
(* as it is (e.g. subvec then conj): the variable `danger` records it, and *)
(* every history (dangerous ones flagged) is printed for the replay        *)
(* harness, which re-reads every earlier binding after every step on the   *)
(* real code.                                                              *)
(***************************************************************************)
EXTENDS Def, Json

CONSTANTS MaxLen,      \* history length (number of operations after the seed)
          Family,      \* "seq" | "map"
          CoreOnly     \* TRUE: only the operations that share or append to their operand's array (long histories)

\* ------------------------------------------------------------------ seq family
\* op table: name, operand count (1 or 2 earlier names), template text with _1 _2
SeqOps == <<
  [n |-> "conj",        ar |-> 1, t |-> "(conj _1 9)"],
  [n |-> "conj2",       ar |-> 1, t |-> "(conj _1 8 7)"],
  [n |-> "concat",      ar |-> 2, t |-> "(concat _1 _2)"],
  [n |-> "concat-lit",  ar |-> 1, t |-> "(concat _1 [6])"],
  [n |-> "cons",        ar |-> 1, t |-> "(cons 5 _1)"],
  [n |-> "subvec",      ar |-> 1, t |-> "(subvec (vec _1) 0 1)"],
  [n |-> "subvec-tail", ar |-> 1, t |-> "(subvec (vec _1) 1)"],
  [n |-> "rest",        ar |-> 1, t |-> "(rest _1)"],
  [n |-> "vec",         ar |-> 1, t |-> "(vec _1)"],
  [n |-> "seq",         ar |-> 1, t |-> "(seq _1)"],
  [n |-> "take",        ar |-> 1, t |-> "(take 2 _1)"],
  [n |-> "drop",        ar |-> 1, t |-> "(drop 1 _1)"],
  [n |-> "take-last",   ar |-> 1, t |-> "(take-last 2 _1)"],
  [n |-> "drop-last",   ar |-> 1, t |-> "(drop-last 1 _1)"],
  [n |-> "assoc",       ar |-> 1, t |-> "(assoc (vec _1) 0 4)"],
  [n |-> "with-meta",   ar |-> 1, t |-> "(with-meta _1 {:m 1})"],
  [n |-> "qq-front",    ar |-> 1, t |-> "(quasiquote ((splice-unquote _1) 3))"],
  [n |-> "qq-back",     ar |-> 1, t |-> "(quasiquote (2 (splice-unquote _1)))"],
  [n |-> "apply",       ar |-> 1, t |-> "(apply list 1 _1)"],
  [n |-> "map",         ar |-> 1, t |-> "(map identity _1)"],
  [n |-> "update",      ar |-> 1, t |-> "(update (vec _1) 0 inc)"],
  [n |-> "concat3-empty", ar |-> 1, t |-> "(concat [] _1 [6])"],
  [n |-> "concat-empty2", ar |-> 2, t |-> "(concat () _1 _2)"],
  [n |-> "apply-concat",  ar |-> 1, t |-> "(apply concat (list (list) _1 (list 6)))"],
  [n |-> "map-restfn",    ar |-> 1, t |-> "(map (fn [& r] r) _1)"],
  [n |-> "apply-restfn",  ar |-> 1, t |-> "(apply (fn [& r] r) _1)"],
  [n |-> "apply-restfn1", ar |-> 1, t |-> "(apply (fn [a & r] r) 0 _1)"],
  \* position-taking builtins applied to the value itself (a list is outside their domain: an error, no binding)
  [n |-> "update-direct", ar |-> 1, t |-> "(update _1 0 inc)"],
  [n |-> "assoc-direct",  ar |-> 1, t |-> "(assoc _1 0 4)"],
  \* an EMPTY window onto the operand's array (it still owns the capacity behind it)
  [n |-> "subvec-empty",  ar |-> 1, t |-> "(subvec (vec _1) 1 1)"],
  [n |-> "subvec-end",    ar |-> 1, t |-> "(subvec (vec _1) 3)"] >>

MapOps == <<
  [n |-> "assoc",       ar |-> 1, t |-> "(assoc _1 :b 2)"],
  [n |-> "assoc-a",     ar |-> 1, t |-> "(assoc _1 :a 9)"],
  [n |-> "dissoc",      ar |-> 1, t |-> "(dissoc _1 :a)"],
  [n |-> "dissoc-b",    ar |-> 1, t |-> "(dissoc _1 :b)"],
  [n |-> "dissoc-multi", ar |-> 1, t |-> "(dissoc _1 :zz :a)"],
  [n |-> "dissoc-multi2", ar |-> 1, t |-> "(dissoc _1 :zz :n :b)"],
  [n |-> "conj",        ar |-> 1, t |-> "(conj _1 :c 3)"],
  [n |-> "merge",       ar |-> 2, t |-> "(merge _1 _2)"],
  [n |-> "merge-lit",   ar |-> 1, t |-> "(merge _1 {:z 1})"],
  [n |-> "rename-keys", ar |-> 1, t |-> "(rename-keys _1 {:a :r})"],
  [n |-> "assoc-in",    ar |-> 1, t |-> "(assoc-in _1 [:n :k] 1)"],
  [n |-> "assoc-in1",   ar |-> 1, t |-> "(assoc-in _1 [:a] 7)"],
  [n |-> "update",      ar |-> 1, t |-> "(update _1 :a identity)"],
  [n |-> "with-meta",   ar |-> 1, t |-> "(with-meta _1 {:m 1})"],
  [n |-> "nest",        ar |-> 1, t |-> "{:n _1}"],
  [n |-> "get-n",       ar |-> 1, t |-> "(get _1 :n)"],
  [n |-> "hash-map",    ar |-> 1, t |-> "(apply hash-map (list :k _1))"] >>

Ops == IF Family = "seq" THEN SeqOps ELSE MapOps
Templates == [k \in 1..Len(Ops) |-> Parse(Ops[k].t)]
ASSUME InitRegisters
ASSUME TLCSet(3, Norm(Templates))

Name(k) == "v" \o ToString(k)

RECURSIVE SubstNames(_, _, _)
SubstNames(t, a, b) ==
  IF t.t = "sym" /\ t.s = "_1" THEN SymV(Name(a))
  ELSE IF t.t = "sym" /\ t.s = "_2" THEN SymV(Name(b))
  ELSE IF t.t \in {"list", "vec"} THEN [t EXCEPT !.xs = [k \in 1..Len(t.xs) |-> SubstNames(t.xs[k], a, b)]]
  ELSE IF t.t = "map" THEN [t EXCEPT !.m = [k \in DOMAIN t.m |-> SubstNames(t.m[k], a, b)]]
  ELSE t

(***************************************************************************)
(* The slice heap (seq family).  cells are integers; 0 = never written.    *)
(***************************************************************************)
\* seed classes: the value v0 denotes, and several construction paths for it (the real
\* runtime decides their spare capacity; the model treats it as nondeterministic)
SeqSeeds == <<
  [v |-> "[1 2 3]", texts |-> <<"[1 2 3]", "(vector 1 2 3)", "(vec (list 1 2 3))", "(conj [1 2] 3)", "(range 1 4)",
                                "(subvec [1 2 3 4 5] 0 3)", "(vec (take 3 [1 2 3 4]))", "(vec (concat [1] [2 3]))",
                                "(assoc [1 2 0] 2 3)", "(vec (map identity [1 2 3]))">>],
  [v |-> "(1 2 3)", texts |-> <<"(list 1 2 3)", "(quote (1 2 3))", "(rest [0 1 2 3])", "(concat [1] [2 3])",
                                "(seq [1 2 3])", "(take 3 [1 2 3 4])", "(map identity [1 2 3])", "(cons 1 [2 3])">>] >>
MapSeeds == <<
  [v |-> "{}", texts |-> <<"{}", "(hash-map)", "(dissoc {:a 1} :a)", "(merge {} {})">>],
  [v |-> "{:a 1}", texts |-> <<"{:a 1}", "(assoc {} :a 1)", "(hash-map :a 1)", "(dissoc {:a 1 :q 2} :q)">>],
  [v |-> "{:a 1 :n {}}", texts |-> <<"{:a 1 :n {}}", "(assoc {:a 1} :n {})", "(assoc-in {:a 1} [:n] {})">>] >>
Seeds == IF Family = "seq" THEN SeqSeeds ELSE MapSeeds

VARIABLES seed,    \* index into Seeds
          heap,    \* Seq(Seq(Int)) backing arrays
          hdr,     \* Seq([k, arr, off, len, cap]) one header per name v0..; arr = 0: not a sequence
          snap,    \* Seq(Seq(Int)): abstract value of each name WHEN IT WAS CREATED
          hist,    \* Seq([op, a, b]) the history so far
          danger   \* some earlier name's abstract value changed (model-level Immutable violated)
vars == <<seed, heap, hdr, snap, hist, danger>>

Abs(h, hp) == IF h.arr = 0 THEN <<>> ELSE SubSeq(hp[h.arr], h.off + 1, h.off + h.len)
Hdr(k, arr, off, len, cap) == [k |-> k, arr |-> arr, off |-> off, len |-> len, cap |-> cap]

\* allocate a fresh array holding xs with `spare` unused cells
Alloc(hp, xs, spare) == Append(hp, xs \o [i \in 1..spare |-> 0])

\* Go append(s, ys...): in place iff it fits
AppendInPlace(hp, h, ys) ==
  [hp EXCEPT ![h.arr] = [i \in 1..Len(@) |->
       IF i > h.off + h.len /\ i <= h.off + h.len + Len(ys) THEN ys[i - h.off - h.len] ELSE @[i]]]

Fits(h, n) == h.arr # 0 /\ h.len + n <= h.cap

\* result of one operation: [heap, h] alternatives (set, because of capacity nondeterminism)
Fresh(hp, kind, xs) == {[heap |-> Alloc(hp, xs, sp), h |-> Hdr(kind, Len(hp) + 1, 0, Len(xs), Len(xs) + sp)] : sp \in {0, 1}}
AppendOp(hp, h, kind, ys) ==
  IF Fits(h, Len(ys))
  THEN {[heap |-> AppendInPlace(hp, h, ys), h |-> Hdr(kind, h.arr, h.off, h.len + Len(ys), h.cap)]}
  ELSE Fresh(hp, kind, Abs(h, hp) \o ys)
Share(hp, h, kind, from, to) == {[heap |-> hp, h |-> Hdr(kind, h.arr, h.off + from, to - from, h.cap - from)]}

SeqStep(op, hp, ha, hb) ==
  LET xs == Abs(ha, hp) n == Len(xs) IN
  CASE op = "conj" -> IF ha.k = "vec" THEN AppendOp(hp, ha, "vec", <<9>>) ELSE Fresh(hp, "list", <<9>> \o xs)
    [] op = "conj2" -> IF ha.k = "vec" THEN AppendOp(hp, ha, "vec", <<8, 7>>) ELSE Fresh(hp, "list", <<7, 8>> \o xs)
    [] op = "concat" -> AppendOp(hp, ha, "list", Abs(hb, hp))
    [] op = "concat-lit" -> AppendOp(hp, ha, "list", <<6>>)
    [] op = "cons" -> Fresh(hp, "list", <<5>> \o xs)
    [] op = "subvec" -> IF n >= 1 THEN Share(hp, ha, "vec", 0, 1) ELSE {}
    [] op = "subvec-tail" -> IF n >= 1 THEN Share(hp, ha, "vec", 1, n) ELSE {}
    [] op = "rest" -> IF n >= 1 THEN Share(hp, ha, "list", 1, n) ELSE Fresh(hp, "list", <<>>)
    [] op = "vec" -> Share(hp, ha, "vec", 0, n)
    [] op = "seq" -> IF n >= 1 THEN Share(hp, ha, "list", 0, n) ELSE {}
    [] op = "take" -> Fresh(hp, "list", Take(xs, 2))
    [] op = "drop" -> Fresh(hp, "list", Drop(xs, 1))
    [] op = "take-last" -> IF n >= 1 THEN Fresh(hp, "list", Drop(xs, n - 2)) ELSE {}
    [] op = "drop-last" -> Fresh(hp, "list", Take(xs, n - 1))
    [] op = "assoc" -> IF n >= 1 THEN Fresh(hp, "vec", [xs EXCEPT ![1] = 4]) ELSE {}
    [] op = "with-meta" -> Share(hp, ha, ha.k, 0, n)
    [] op = "qq-front" -> AppendOp(hp, ha, "list", <<3>>)           \* (concat v (cons 3 ()))
    [] op = "qq-back" -> Fresh(hp, "list", <<2>> \o xs)             \* (cons 2 (concat v ()))
    [] op = "apply" -> Fresh(hp, "list", <<1>> \o xs)
    [] op = "map" -> Fresh(hp, "list", xs)
    [] op = "update" -> IF n >= 1 THEN Fresh(hp, "vec", [xs EXCEPT ![1] = @ + 1]) ELSE {}
    [] op = "concat3-empty" -> Fresh(hp, "list", xs \o <<6>>)       \* the copy of the (empty) first argument is appended to
    [] op = "concat-empty2" -> Fresh(hp, "list", xs \o Abs(hb, hp))
    [] op = "apply-concat" -> Fresh(hp, "list", xs \o <<6>>)
    [] op = "map-restfn" -> {[heap |-> hp, h |-> Hdr("list", 0, 0, 0, 0)]}   \* a list of lists: outside the integer heap
    [] op = "apply-restfn" -> Fresh(hp, "list", xs)
    [] op = "apply-restfn1" -> Fresh(hp, "list", xs)
    [] op \in {"update-direct", "assoc-direct"} ->
         IF ha.k = "vec" /\ n >= 1 THEN Fresh(hp, "vec", [xs EXCEPT ![1] = IF op = "assoc-direct" THEN 4 ELSE @ + 1])
         ELSE {[heap |-> hp, h |-> Hdr("list", 0, 0, 0, 0)]}          \* an error: nothing is bound, nothing changes
    [] op = "subvec-empty" -> IF n >= 1 THEN Share(hp, ha, "vec", 1, 1) ELSE {}
    [] op = "subvec-end" -> IF n = 3 THEN Share(hp, ha, "vec", 3, 3) ELSE {}

Init ==
  /\ hist = <<>> /\ danger = FALSE
  /\ IF Family = "seq"
     THEN \E sp \in {0, 1}, sd \in {1, 2} :
            /\ seed = sd
            /\ heap = <<<<1, 2, 3>> \o [i \in 1..sp |-> 0]>>
            /\ hdr = <<Hdr(IF sd = 1 THEN "vec" ELSE "list", 1, 0, 3, 3 + sp)>>
            /\ snap = <<<<1, 2, 3>>>>
     ELSE /\ seed \in 1..Len(MapSeeds)
          /\ heap = <<>> /\ hdr = <<Hdr("map", 0, 0, 0, 0)>> /\ snap = <<<<>>>>

Do(k, a, b) ==
  LET op == Ops[k].n IN
  IF Family = "seq"
  THEN \E r \in SeqStep(op, heap, hdr[a], hdr[b]) :
         /\ heap' = r.heap
         /\ hdr' = Append(hdr, r.h)
         /\ snap' = Append(snap, Abs(r.h, r.heap))
         /\ hist' = Append(hist, [op |-> k, a |-> a, b |-> b])
         /\ danger' = (danger \/ \E j \in 1..Len(hdr) : Abs(hdr[j], r.heap) # snap[j])
         /\ UNCHANGED seed
  ELSE /\ hist' = Append(hist, [op |-> k, a |-> a, b |-> b])
       /\ hdr' = Append(hdr, Hdr("map", 0, 0, 0, 0))
       /\ snap' = Append(snap, <<>>)
       /\ UNCHANGED <<seed, heap, danger>>

\* the operations that return a window onto their operand's array or append to it (and the rest-parameter ones)
CoreNames == {"conj", "conj2", "concat", "concat-lit", "subvec", "subvec-tail", "subvec-empty", "subvec-end", "rest", "vec", "seq", "with-meta",
              "qq-front", "concat3-empty", "concat-empty2", "apply-concat", "map-restfn", "apply-restfn", "apply-restfn1"}
Step == /\ Len(hist) < MaxLen
        /\ \E k \in {x \in 1..Len(Ops) : ~CoreOnly \/ Family = "map" \/ Ops[x].n \in CoreNames}, a \in 1..Len(hdr) :
             IF Ops[k].ar = 2 THEN \E b \in 1..Len(hdr) : Do(k, a, b) ELSE Do(k, a, a)

\* the design-level statement; expected to be violated by the code as designed
Immutable == ~danger

\* ----------------------------------------------------------------- case output
Forms == [i \in 1..Len(hist) |->
            ListV(<<SymV("def"), SymV(Name(i)), SubstNames(TLCGet(3)[hist[i].op], hist[i].a - 1, hist[i].b - 1)>>)]
OpNames == [i \in 1..Len(hist) |-> Ops[hist[i].op].n]

Emit == /\ Len(hist) = MaxLen
        /\ LET sd == Seeds[seed]
               def0 == ListV(<<SymV("def"), SymV("v0"), ListV(<<SymV("quote"), Parse(sd.v)>>)>>)
               r == RunContinuing(<<def0>> \o Forms)     \* a failing step binds nothing; the history goes on
               names == {Name(i) : i \in 0..Len(hist)}
               c == [kind |-> "history", tag |-> Family, seeds |-> sd.texts, forms |-> Forms, ops |-> OpNames,
                     danger |-> IF danger THEN 1 ELSE 0,
                     src |-> "(def v0 " \o sd.v \o ") " \o Join([i \in 1..Len(hist) |-> PrStr(Forms[i])], " "),
                     allow |-> Outcome(r, names)]
           IN PrintT("CASE " \o ToJson(c))
        /\ UNCHANGED vars

Next == Step \/ Emit
Spec == Init /\ [][Next]_vars
=============================================================================
