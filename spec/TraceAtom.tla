------------------------------ MODULE TraceAtom ------------------------------
(***************************************************************************)
(* Direction B for C09: executions of the REAL atom code, recorded at the  *)
(* linearization points (hooks under the atom's lock, globally ordered by  *)
(* a sequence number taken inside the hook) plus invocation / response     *)
(* events of the driver threads, are validated against the abstract atom:  *)
(* one cell per atom, every operation taking effect atomically at its      *)
(* linearization event.                                                    *)
(*   read  (deref under RLock)      must return the cell                   *)
(*   snap  (swap! snapshot)         must see the cell                      *)
(*   set   (swap! install)          the snapshot it was computed from must *)
(*                                  STILL be the cell (no lost update) and *)
(*                                  the installed value must be f(snapshot,*)
(*                                  values the function read)              *)
(*   reset (reset! install)         installs its argument                  *)
(*   res   (response)               deref returns what it read, swap! what *)
(*                                  it installed, a failed swap! installs  *)
(*                                  nothing and leaves its snapshot unused *)
(* Every event determines its step (linear walk); a scenario that cannot   *)
(* be explained prints REJECT with the event index and reason.             *)
(***************************************************************************)
EXTENDS Integers, Sequences, TLC, Json, IOUtils

ASSUME TLCSet(5, ndJsonDeserialize(IOEnv.VERIF_TRACE))
Trace == TLCGet(5)
Tids == 1..8
AtomIds == 1..4

VARIABLES l, cell, stack, lastread, lastset, opcur, skip, nscen
vars == <<l, cell, stack, lastread, lastset, opcur, skip, nscen>>

NoOp == [op |-> "", atom |-> 0, b |-> 0, val |-> 0]
Init == /\ l = 1 /\ cell = [a \in AtomIds |-> 0] /\ stack = [t \in Tids |-> <<>>]
        /\ lastread = [t \in Tids |-> 0] /\ lastset = [t \in Tids |-> 0] /\ opcur = [t \in Tids |-> NoOp]
        /\ skip = FALSE /\ nscen = 0

Top(t) == stack[t][Len(stack[t])]
Pop(t) == [stack EXCEPT ![t] = SubSeq(@, 1, Len(@) - 1)]

\* the value the update function must have produced from snapshot v
Expected(t, v) ==
  IF Len(stack[t]) >= 2 THEN v + 1                      \* nested (swap! b + 1) inside an update function
  ELSE CASE opcur[t].op = "swapinc" -> v + 1
         [] opcur[t].op = "swapflip" -> IF v < 1000 THEN v + 1000 ELSE v - 1000     \* same elements, other kind (= but distinguishable)
         [] opcur[t].op \in {"swapaddother", "swapaddself"} -> v + lastread[t]
         [] opcur[t].op = "swapswapother" -> v + 1
         [] OTHER -> -12345

Reject(e, why) == /\ PrintT("REJECT " \o ToString(l) \o " " \o why) /\ skip' = TRUE /\ l' = l + 1
                  /\ UNCHANGED <<cell, stack, lastread, lastset, opcur, nscen>>

Step ==
  /\ l <= Len(Trace)
  /\ LET e == Trace[l] t == e.tid a == e.atom IN
     IF e.ev = "begin" THEN
       /\ cell' = [x \in AtomIds |-> 0] /\ stack' = [x \in Tids |-> <<>>] /\ lastread' = [x \in Tids |-> 0]
       /\ lastset' = [x \in Tids |-> 0] /\ opcur' = [x \in Tids |-> NoOp] /\ skip' = FALSE /\ nscen' = nscen + 1 /\ l' = l + 1
     ELSE IF skip THEN l' = l + 1 /\ UNCHANGED <<cell, stack, lastread, lastset, opcur, skip, nscen>>
     ELSE IF e.ev = "inv" THEN
       /\ opcur' = [opcur EXCEPT ![t] = [op |-> e.op, atom |-> a, b |-> e.b, val |-> e.val]]
       /\ l' = l + 1 /\ UNCHANGED <<cell, stack, lastread, lastset, skip, nscen>>
     ELSE IF e.ev = "read" THEN
       IF e.val # cell[a] THEN Reject(e, "deref read a value that is not the cell")
       ELSE lastread' = [lastread EXCEPT ![t] = e.val] /\ l' = l + 1 /\ UNCHANGED <<cell, stack, lastset, opcur, skip, nscen>>
     ELSE IF e.ev = "snap" THEN
       IF e.val # cell[a] THEN Reject(e, "swap! snapshot is not the cell")
       ELSE /\ stack' = [stack EXCEPT ![t] = IF Len(@) >= 1 /\ @[Len(@)].a = a
                                               THEN [@ EXCEPT ![Len(@)] = [a |-> a, v |-> e.val]]   \* retry
                                               ELSE Append(@, [a |-> a, v |-> e.val])]
            /\ l' = l + 1 /\ UNCHANGED <<cell, lastread, lastset, opcur, skip, nscen>>
     ELSE IF e.ev = "set" THEN
       IF stack[t] = <<>> \/ Top(t).a # a THEN Reject(e, "swap! installed without a snapshot")
       ELSE IF Top(t).v # cell[a] THEN Reject(e, "lost update: swap! installed f(v) but the cell is no longer v")
       ELSE IF e.val # Expected(t, Top(t).v) THEN Reject(e, "swap! installed a value that is not f(snapshot)")
       ELSE /\ cell' = [cell EXCEPT ![a] = e.val] /\ stack' = Pop(t) /\ lastset' = [lastset EXCEPT ![t] = e.val]
            /\ l' = l + 1 /\ UNCHANGED <<lastread, opcur, skip, nscen>>
     ELSE IF e.ev = "reset" THEN
       IF e.val # opcur[t].val THEN Reject(e, "reset! installed something else than its argument")
       ELSE cell' = [cell EXCEPT ![a] = e.val] /\ lastset' = [lastset EXCEPT ![t] = e.val]
            /\ l' = l + 1 /\ UNCHANGED <<stack, lastread, opcur, skip, nscen>>
     ELSE IF e.ev = "final" THEN
       \* (vector-valued atoms, every swap! conj'ing an element of its own): all elements of the final value distinct
       IF e.val # e.n THEN Reject(e, "lost update: the final vector holds " \o ToString(e.n) \o " elements, only " \o ToString(e.val) \o " distinct")
       ELSE IF e.n # cell[a] THEN Reject(e, "the final vector does not have the length the history gives")
       ELSE l' = l + 1 /\ UNCHANGED <<cell, stack, lastread, lastset, opcur, skip, nscen>>
     ELSE IF e.ev = "res" THEN
       IF e.op = "deref" /\ e.val # lastread[t] THEN Reject(e, "deref returned something else than it read")
       ELSE IF e.op = "reset" /\ e.val # opcur[t].val THEN Reject(e, "reset! returned something else than its argument")
       ELSE IF e.op \in {"swapinc", "swapflip", "swapaddother", "swapaddself", "swapswapother"} /\ (e.val # lastset[t] \/ stack[t] # <<>>)
            THEN Reject(e, "swap! returned something else than it installed")
       ELSE IF e.op = "swapfail" /\ e.val # -1 THEN Reject(e, "a failing update function did not make swap! fail")
       ELSE /\ stack' = [stack EXCEPT ![t] = <<>>]      \* a failed swap! leaves its snapshot unused
            /\ l' = l + 1 /\ UNCHANGED <<cell, lastread, lastset, opcur, skip, nscen>>
     ELSE Reject(e, "unknown event")

Done == l > Len(Trace) /\ UNCHANGED vars
Next == Step \/ Done
Spec == Init /\ [][Next]_vars
\* every line was consumed
Accepted == l = Len(Trace) + 1
=============================================================================
