------------------------------- MODULE GenC01 -------------------------------
(***************************************************************************)
(* C01 generator: EVERY program up to a size bound over a reduced alphabet *)
(* of the core special forms (plus a random sample of larger ones),        *)
(* evaluated by the definition layer (Def).  One TLC state per program;    *)
(* the Next step decodes the program, evaluates it and prints the case     *)
(* (program + allowed outcome) for the replay harness.                     *)
(*                                                                         *)
(* Context (evaluated before every program, in the same fresh scope):      *)
(*   (def x 10)                                                            *)
(*   (def f (fn [x & y] (trace! (list :f x y)) (if x (first y) y)))        *)
(*   (def g (fn [] x))                                                     *)
(* so that x is a global shadowed by parameters, y is unbound globally,    *)
(* f is a variadic closure with an effect, g reads the global x whatever   *)
(* the caller's local x is (lexical, not dynamic, scoping).                *)
(***************************************************************************)
EXTENDS C01Grammar, Json, Randomization

CONSTANTS MaxSize,    \* exhaustive: all programs of 1..MaxSize nodes
          SampleSize, \* sampled: programs of SampleSize nodes ...
          SampleN     \* ... this many of them (0 = none)

CtxForms == C01CtxForms
G == C01G

NMax == IF SampleSize > MaxSize THEN SampleSize ELSE MaxSize
ASSUME InitRegisters
ASSUME SetContext(CtxForms)
ASSUME TLCSet(3, Norm(G))
ASSUME TLCSet(4, Norm(CountTab(G, NMax, <<>>)))
ASSUME PrintT("CTX " \o ToJson([name |-> "c01", forms |-> CtxForms]))
ASSUME PrintT(<<"COUNTS", TLCGet(4)>>)

VARIABLES sz, idx, ph

Init == /\ ph = 0
        /\ \/ sz \in 1..MaxSize /\ idx \in 0..(TLCGet(4)[sz] - 1)
           \/ SampleN > 0 /\ sz = SampleSize /\ idx \in RandomSubset(SampleN, 0..(TLCGet(4)[SampleSize] - 1))

HeadTag(e) == IF e.t = "list" /\ Len(e.xs) >= 1 THEN (IF e.xs[1].t = "sym" THEN e.xs[1].s ELSE "call") ELSE e.t

Next == /\ ph = 0 /\ ph' = 1 /\ UNCHANGED <<sz, idx>>
        /\ LET prog == Decode(TLCGet(3), TLCGet(4), sz, idx)
               r == RunInCtx(<<prog>>)
               c == [kind |-> "prog", tag |-> HeadTag(prog), src |-> PrStr(prog), ctx |-> "c01",
                     forms |-> <<prog>>, allow |-> Outcome(r, {"x", "y"})]
           IN PrintT("CASE " \o ToJson(c))

Spec == Init /\ [][Next]_<<sz, idx, ph>>
=============================================================================
