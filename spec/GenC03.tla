------------------------------- MODULE GenC03 -------------------------------
(***************************************************************************)
(* C03 generator: every program up to a size bound over a grammar of       *)
(* try / catch / finally / throw, with throws originating in the body, in  *)
(* called functions (any depth), in macro expansions, in Go builtins       *)
(* (error return, panic with an error, panic with a non-error) and in      *)
(* handlers; thrown objects of every kind, including lists that look like  *)
(* code.  The catch symbol is `e`; the context binds a GLOBAL e so that a  *)
(* handler variable leaking into `finally` or past the try is observable.  *)
(***************************************************************************)
EXTENDS GenProg, Grammars

CONSTANTS MaxSize, SampleSize, SampleN

CtxForms == C03CtxForms
G == C03G

NMax == IF SampleSize > MaxSize THEN SampleSize ELSE MaxSize
ASSUME InitRegisters
ASSUME SetContext(CtxForms)
ASSUME TLCSet(3, Norm(G))
ASSUME TLCSet(4, Norm(CountTab(G, NMax, <<>>)))
ASSUME PrintT("CTX " \o ToJson([name |-> "c03", forms |-> CtxForms]))
ASSUME PrintT(<<"COUNTS", TLCGet(4)>>)

VARIABLES sz, idx, ph
Init == /\ ph = 0
        /\ \/ sz \in 1..MaxSize /\ idx \in 0..(TLCGet(4)[sz] - 1)
           \/ SampleN > 0 /\ sz = SampleSize /\ idx \in RandomSubset(SampleN, 0..(TLCGet(4)[SampleSize] - 1))

Next == /\ ph = 0 /\ ph' = 1 /\ UNCHANGED <<sz, idx>>
        /\ LET prog == Decode(TLCGet(3), TLCGet(4), sz, idx)
               r == RunInCtx(<<prog>>)
               c == [kind |-> "prog", tag |-> HeadTag(prog), src |-> PrStr(prog), ctx |-> "c03",
                     forms |-> <<prog>>, allow |-> Outcome(r, {"e"})]
           IN PrintT("CASE " \o ToJson(c))
Spec == Init /\ [][Next]_<<sz, idx, ph>>
=============================================================================
