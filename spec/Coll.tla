-------------------------------- MODULE Coll --------------------------------
(***************************************************************************)
(* Definition layer: the pure builtins as total operators on the abstract  *)
(* model of ordered sequences, unordered string-keyed maps and unordered   *)
(* string sets.  Sources: mal guide, README "Changes/Additions", the step  *)
(* files (tests/step*.mal).  A documented `;=>nil` that stands for "fails" *)
(* is NOT taken as a value.  Where the sources are silent: OX (abstain).   *)
(*                                                                         *)
(* Outcome:  [k |-> "val", v, ord]   value; ord = FALSE: v is a sequence    *)
(*                                   whose ORDER is unspecified            *)
(*           [k |-> "err"]           must be an error (never a value)      *)
(*           [k |-> "thr", v]        throws the lisp value v               *)
(*           [k |-> "unspec"]        oracle abstains                       *)
(***************************************************************************)
EXTENDS Text

OV(v) == [k |-> "val", v |-> v, ord |-> TRUE]
OU(v) == [k |-> "val", v |-> v, ord |-> FALSE]
OE    == [k |-> "err", v |-> NilV, ord |-> TRUE]
OT(v) == [k |-> "thr", v |-> v, ord |-> TRUE]
OX    == [k |-> "unspec", v |-> NilV, ord |-> TRUE]

IsInt(v) == v.t = "int"
AllKeyable(xs) == \A k \in 1..Len(xs) : IsKeyable(xs[k])

RECURSIVE AssocPairs(_, _, _)
AssocPairs(m, xs, i) == IF i > Len(xs) THEN m ELSE AssocPairs(MapPut(m, KeyOf(xs[i]), xs[i + 1]), xs, i + 2)
OddIdx(xs) == {k \in 1..Len(xs) : k % 2 = 1}
KeysKeyable(xs) == \A k \in OddIdx(xs) : IsKeyable(xs[k])

SetOfSeq(xs) == [k \in {KeyOf(xs[j]) : j \in 1..Len(xs)} |-> NilV]
KeySeq(m) == LET ks == SetToSeq(DOMAIN m) IN [k \in 1..Len(ks) |-> KeyVal(ks[k])]
ValSeq(m) == LET ks == SetToSeq(DOMAIN m) IN [k \in 1..Len(ks) |-> m[ks[k]]]
Unordered(xs) == IF Len(xs) <= 1 THEN OV(ListV(xs)) ELSE OU(ListV(xs))

\* nested get through maps (by key) and vectors (by index); the empty path is the value itself
\* (documented in tests/stepG_infunctions.mal).  README: "ks must be a vector of hash map keys": below a
\* missing or nil-valued map entry the implementation goes on in an EMPTY MAP, so the rest of the path is
\* in the documented domain only when it consists of map keys (then the answer is nil); a nil ELEMENT OF A
\* VECTOR followed by more path is documented nowhere (unspecified).
RestKeyable(path, i) == \A j \in i..Len(path) : IsKeyable(path[j])
RECURSIVE GetIn(_, _, _)
GetIn(v, path, i) ==
  IF i > Len(path) THEN OV(v)
  ELSE IF v.t = "nil" THEN OV(NilV)
  ELSE IF v.t = "map" /\ IsKeyable(path[i]) THEN
       IF KeyOf(path[i]) \in DOMAIN v.m /\ v.m[KeyOf(path[i])].t # "nil" THEN GetIn(v.m[KeyOf(path[i])], path, i + 1)
       ELSE IF RestKeyable(path, i + 1) THEN OV(NilV) ELSE OX
  ELSE IF v.t = "vec" /\ path[i].t = "int" /\ path[i].i >= 0 /\ path[i].i < Len(v.xs) THEN
       IF v.xs[path[i].i + 1].t = "nil" /\ i < Len(path) THEN OX ELSE GetIn(v.xs[path[i].i + 1], path, i + 1)
  ELSE OX

RECURSIVE AssocIn(_, _, _, _)
\* maps only; missing or nil intermediate levels become fresh maps
AssocIn(v, path, i, new) ==
  IF v.t = "vec" /\ path[i].t = "int" /\ path[i].i >= 0 /\ path[i].i < Len(v.xs) THEN
    (IF i = Len(path) THEN OV(VecV([v.xs EXCEPT ![path[i].i + 1] = new]))
     ELSE LET r == AssocIn(v.xs[path[i].i + 1], path, i + 1, new) IN
            IF r.k = "val" THEN OV(VecV([v.xs EXCEPT ![path[i].i + 1] = r.v])) ELSE r)
  ELSE IF v.t # "map" \/ ~IsKeyable(path[i]) THEN OX
  ELSE LET k == KeyOf(path[i]) IN
    IF i = Len(path) THEN OV(MapV(MapPut(v.m, k, new)))
    ELSE LET sub == IF k \in DOMAIN v.m /\ v.m[k].t # "nil" THEN v.m[k] ELSE MapV(EmptyMap)
             r == AssocIn(sub, path, i + 1, new)
         IN IF r.k = "val" THEN OV(MapV(MapPut(v.m, k, r.v))) ELSE r

TypePreds == {"nil?", "true?", "false?", "symbol?", "keyword?", "string?", "number?", "list?",
              "vector?", "map?", "set?", "sequential?", "fn?", "macro?", "atom?"}
TypePred(name, v) ==
  CASE name = "nil?" -> v.t = "nil"
    [] name = "true?" -> v.t = "bool" /\ v.i = 1
    [] name = "false?" -> v.t = "bool" /\ v.i = 0
    [] name = "symbol?" -> v.t = "sym"
    [] name = "keyword?" -> v.t = "kw"
    [] name = "string?" -> v.t = "str"
    [] name = "number?" -> v.t = "int"
    [] name = "list?" -> v.t = "list"
    [] name = "vector?" -> v.t = "vec"
    [] name = "map?" -> v.t = "map"
    [] name = "set?" -> v.t = "set"
    [] name = "sequential?" -> v.t \in {"list", "vec"}
    [] name = "fn?" -> v.t = "bfn" \/ (v.t = "fn" /\ v.s # "macro")
    [] name = "macro?" -> v.t = "fn" /\ v.s = "macro"
    [] name = "atom?" -> v.t = "atom"

Arith == {"+", "-", "*", "/", "<", "<=", ">", ">="}
\* keep within TLC's 32-bit integers: abstain on large operands
Small(n) == n > -30000 /\ n < 30000

(***************************************************************************)
(* Pure(name, a): the builtins that need neither the evaluator nor state.  *)
(***************************************************************************)
PureNames == TypePreds \cup Arith \cup
  {"=", "list", "vector", "cons", "concat", "vec", "nth", "first", "rest", "count", "empty?",
   "conj", "seq", "take", "take-last", "drop", "drop-last", "subvec", "range", "hash-map",
   "assoc", "dissoc", "get", "contains?", "keys", "vals", "merge", "rename-keys", "get-in",
   "assoc-in", "set", "hash-set", "symbol", "keyword", "pr-str", "str", "read-string", "with-meta", "meta",
   "assert", "prn", "println", "split", "type?", "future?"}

RECURSIVE HasUnorderedInside(_)
\* printing a value with a multi-entry map or set inside has no specified text
HasUnorderedInside(v) ==
  \/ v.t \in {"map", "set"} /\ Cardinality(DOMAIN v.m) >= 2
  \/ v.t \in {"list", "vec"} /\ \E k \in 1..Len(v.xs) : HasUnorderedInside(v.xs[k])
  \/ v.t = "map" /\ \E k \in DOMAIN v.m : HasUnorderedInside(v.m[k])
  \/ v.t \notin {"nil", "bool", "int", "str", "kw", "sym", "list", "vec", "map", "set"}

RECURSIVE StrPlain(_)
\* non-readable printing (str): strings as they are
StrPlain(v) ==
  CASE v.t = "str" -> v.s
    [] v.t = "list" -> "(" \o Join([k \in 1..Len(v.xs) |-> StrPlain(v.xs[k])], " ") \o ")"
    [] v.t = "vec" -> "[" \o Join([k \in 1..Len(v.xs) |-> StrPlain(v.xs[k])], " ") \o "]"
    [] v.t = "map" -> LET ks == SetToSeq(DOMAIN v.m) IN
         "{" \o Join([k \in 1..Len(ks) |-> StrPlain(KeyVal(ks[k])) \o " " \o StrPlain(v.m[ks[k]])], " ") \o "}"
    [] v.t = "set" -> LET ks == SetToSeq(DOMAIN v.m) IN
         "#{" \o Join([k \in 1..Len(ks) |-> StrPlain(KeyVal(ks[k]))], " ") \o "}"
    [] OTHER -> PrStr(v)

RECURSIVE SplitAt(_, _, _, _)
\* pieces of s[i..] separated by sep (sep non-empty); cur = the piece being collected
SplitAt(s, sep, i, cur) ==
  IF i > Len(s) THEN <<cur>>
  ELSE IF i + Len(sep) - 1 <= Len(s) /\ SubSeq(s, i, i + Len(sep) - 1) = sep THEN <<cur>> \o SplitAt(s, sep, i + Len(sep), "")
  ELSE SplitAt(s, sep, i + 1, cur \o Ch(s, i))
SplitStr(s, sep) == IF sep = "" THEN [k \in 1..Len(s) |-> Ch(s, k)] ELSE SplitAt(s, sep, 1, "")

\* integers beyond TLC's range are carried as text: only the builtins that do not look inside an integer are
\* decided for them, every other call with such an argument is left to the code (abstain)
BigSafe == TypePreds \cup {"=", "list", "vector", "pr-str", "str"}
Pure(name, a) ==
  LET n == Len(a) IN
  CASE (\E k \in 1..n : IsBig(a[k])) /\ name \notin BigSafe -> OX
    [] name \in TypePreds -> IF n = 1 THEN OV(BoolV(TypePred(name, a[1]))) ELSE OE
    [] name \in Arith ->
         IF n # 2 \/ ~IsInt(a[1]) \/ ~IsInt(a[2]) THEN OE
         ELSE IF ~Small(a[1].i) \/ ~Small(a[2].i) THEN OX
         ELSE LET x == a[1].i  y == a[2].i IN
           (CASE name = "+" -> OV(IntV(x + y))
             [] name = "-" -> OV(IntV(x - y))
             [] name = "*" -> OV(IntV(x * y))
             \* integer division truncates toward zero
             [] name = "/" -> IF y = 0 THEN OE
                              ELSE LET ax == IF x < 0 THEN -x ELSE x  ay == IF y < 0 THEN -y ELSE y
                                       q == ax \div ay
                                   IN OV(IntV(IF (x < 0) = (y < 0) THEN q ELSE -q))
             [] name = "<" -> OV(BoolV(x < y))
             [] name = "<=" -> OV(BoolV(x <= y))
             [] name = ">" -> OV(BoolV(x > y))
             [] name = ">=" -> OV(BoolV(x >= y)))
    [] name = "=" -> IF n # 2 THEN OE
                     ELSE IF IsData(a[1]) /\ IsData(a[2]) THEN OV(BoolV(StructEq(a[1], a[2]))) ELSE OX
    [] name = "list" -> OV(ListV(a))
    [] name = "vector" -> OV(VecV(a))
    [] name = "cons" -> IF n # 2 THEN OE
                        ELSE IF IsSeq(a[2]) THEN OV(ListV(<<a[1]>> \o a[2].xs))
                        ELSE IF a[2].t = "nil" THEN OX ELSE OE
    [] name = "concat" ->
         IF \A k \in 1..n : IsSeq(a[k]) THEN OV(ListV(Flatten([k \in 1..n |-> a[k].xs])))
         ELSE IF \E k \in 1..n : ~IsSeq(a[k]) /\ a[k].t # "nil" THEN OE ELSE OX
    [] name = "vec" -> IF n # 1 THEN OE
                       ELSE IF IsSeq(a[1]) THEN OV(VecV(a[1].xs))
                       ELSE IF a[1].t \in {"nil", "set", "map"} THEN OX ELSE OE
    [] name = "nth" -> IF n # 2 THEN OE
                       ELSE IF a[1].t = "nil" THEN OX
                       ELSE IF ~IsSeq(a[1]) \/ ~IsInt(a[2]) THEN OE
                       ELSE IF a[2].i >= 0 /\ a[2].i < Len(a[1].xs) THEN OV(a[1].xs[a[2].i + 1]) ELSE OE
    [] name = "first" -> IF n # 1 THEN OE
                         ELSE IF a[1].t = "nil" THEN OV(NilV)
                         ELSE IF ~IsSeq(a[1]) THEN OE
                         ELSE IF a[1].xs = <<>> THEN OV(NilV) ELSE OV(a[1].xs[1])
    [] name = "rest" -> IF n # 1 THEN OE
                        ELSE IF a[1].t = "nil" THEN OV(ListV(<<>>))
                        ELSE IF ~IsSeq(a[1]) THEN OE
                        ELSE IF a[1].xs = <<>> THEN OV(ListV(<<>>)) ELSE OV(ListV(Tail(a[1].xs)))
    [] name = "count" -> IF n # 1 THEN OE
                         ELSE IF a[1].t = "nil" THEN OV(IntV(0))
                         ELSE IF IsSeq(a[1]) THEN OV(IntV(Len(a[1].xs)))
                         ELSE IF a[1].t \in {"map", "set"} THEN OV(IntV(Cardinality(DOMAIN a[1].m)))
                         ELSE IF a[1].t = "str" THEN OX ELSE OE
    [] name = "empty?" -> IF n # 1 THEN OE
                          ELSE IF IsSeq(a[1]) THEN OV(BoolV(a[1].xs = <<>>))
                          ELSE IF a[1].t \in {"map", "set"} THEN OV(BoolV(DOMAIN a[1].m = {}))
                          ELSE IF a[1].t \in {"nil", "str"} THEN OX ELSE OE
    [] name = "conj" ->
         IF n = 0 THEN OE
         ELSE IF n = 1 \/ a[1].t = "nil" THEN OX
         ELSE LET r == Tail(a) IN
           (CASE a[1].t = "list" -> OV(ListV(Rev(r) \o a[1].xs))
             [] a[1].t = "vec" -> OV(VecV(a[1].xs \o r))
             [] a[1].t = "map" -> IF Len(r) % 2 = 1 \/ ~KeysKeyable(r) THEN (IF Len(r) = 1 THEN OX ELSE OE)
                                  ELSE OV(MapV(AssocPairs(a[1].m, r, 1)))
             [] a[1].t = "set" -> IF AllKeyable(r) THEN OV(SetV(MapMerge(a[1].m, SetOfSeq(r)))) ELSE OE
             [] OTHER -> OE)
    [] name = "seq" -> IF n # 1 THEN OE
                       ELSE (CASE a[1].t = "nil" -> OV(NilV)
                              [] IsSeq(a[1]) -> IF a[1].xs = <<>> THEN OV(NilV) ELSE OV(ListV(a[1].xs))
                              [] a[1].t = "str" -> IF a[1].s = "" THEN OV(NilV)
                                                   ELSE OV(ListV([k \in 1..Len(a[1].s) |-> StrV(Ch(a[1].s, k))]))
                              [] a[1].t = "set" -> IF DOMAIN a[1].m = {} THEN OX ELSE Unordered(KeySeq(a[1].m))
                              [] a[1].t \in {"map", "kw"} -> OX
                              [] OTHER -> OE)
    [] name \in {"take", "drop", "take-last", "drop-last"} ->
         IF n # 2 \/ ~IsInt(a[1]) THEN OE
         ELSE IF ~(IsSeq(a[2]) \/ a[2].t = "nil") THEN OE
         ELSE LET xs == IF a[2].t = "nil" THEN <<>> ELSE a[2].xs
                  k == IF a[1].i < 0 THEN 0 ELSE a[1].i
                  len == Len(xs)
              IN (CASE name = "take" -> OV(ListV(Take(xs, k)))
                   [] name = "drop" -> OV(ListV(Drop(xs, k)))
                   [] name = "drop-last" -> OV(ListV(Take(xs, len - k)))
                   [] name = "take-last" -> LET r == Drop(xs, len - k) IN
                                              IF r = <<>> THEN OV(NilV) ELSE OV(ListV(r)))
    [] name = "subvec" ->
         IF n \notin {2, 3} THEN OE
         ELSE IF a[1].t # "vec" \/ \E k \in 2..n : ~IsInt(a[k]) THEN OE
         ELSE LET from == a[2].i  to == IF n = 3 THEN a[3].i ELSE Len(a[1].xs) IN
           IF 0 <= from /\ from <= to /\ to <= Len(a[1].xs) THEN OV(VecV(SubSeq(a[1].xs, from + 1, to))) ELSE OE
    [] name = "range" -> IF n # 2 \/ ~IsInt(a[1]) \/ ~IsInt(a[2]) THEN OE
                         ELSE IF ~Small(a[1].i) \/ ~Small(a[2].i) \/ a[2].i - a[1].i > 50 THEN OX
                         ELSE OV(VecV([k \in 1..(IF a[2].i > a[1].i THEN a[2].i - a[1].i ELSE 0) |-> IntV(a[1].i + k - 1)]))
    [] name = "hash-map" -> IF n = 1 THEN OX
                            ELSE IF n % 2 = 1 \/ ~KeysKeyable(a) THEN OE
                            ELSE OV(MapV(AssocPairs(EmptyMap, a, 1)))
    [] name = "assoc" ->
         IF n = 0 THEN OE
         ELSE (CASE a[1].t = "map" -> IF n < 3 \/ n % 2 = 0 \/ ~KeysKeyable(Tail(a)) THEN OE
                                     ELSE OV(MapV(AssocPairs(a[1].m, Tail(a), 1)))
                \* (an odd key/value count is outside the domain for vectors as for maps: an error)
                [] a[1].t = "vec" -> IF n % 2 = 0 THEN OE
                                     ELSE IF n # 3 THEN OX
                                     ELSE IF ~IsInt(a[2]) THEN OE
                                     ELSE IF a[2].i >= 0 /\ a[2].i < Len(a[1].xs)
                                          THEN OV(VecV([a[1].xs EXCEPT ![a[2].i + 1] = a[3]]))
                                     ELSE IF a[2].i = Len(a[1].xs) THEN OX ELSE OE
                [] a[1].t = "set" -> IF n < 2 THEN OE
                                     ELSE IF AllKeyable(Tail(a)) THEN OV(SetV(MapMerge(a[1].m, SetOfSeq(Tail(a))))) ELSE OE
                [] a[1].t = "nil" -> OX
                [] OTHER -> OE)
    [] name = "dissoc" ->
         IF n = 0 THEN OE
         ELSE IF n = 1 THEN OX
         ELSE (CASE a[1].t \in {"map", "set"} ->
                     IF ~AllKeyable(Tail(a)) THEN (IF a[1].t = "map" THEN OX ELSE OE)
                     ELSE LET ks == {KeyOf(a[k]) : k \in 2..n}
                              m2 == [x \in (DOMAIN a[1].m) \ ks |-> a[1].m[x]]
                          IN OV(Mk(a[1].t, 0, "", <<>>, m2))
                [] a[1].t = "nil" -> OX
                [] OTHER -> OE)
    [] name = "get" ->
         IF n # 2 THEN OE
         ELSE (CASE a[1].t = "nil" -> OV(NilV)
                [] a[1].t = "map" -> IF ~IsKeyable(a[2]) THEN OX
                                     ELSE IF KeyOf(a[2]) \in DOMAIN a[1].m THEN OV(a[1].m[KeyOf(a[2])]) ELSE OV(NilV)
                [] a[1].t = "set" -> IF ~IsKeyable(a[2]) THEN OX
                                     ELSE IF KeyOf(a[2]) \in DOMAIN a[1].m THEN OV(a[2]) ELSE OV(NilV)
                [] a[1].t = "vec" -> IF IsInt(a[2]) /\ a[2].i >= 0 /\ a[2].i < Len(a[1].xs)
                                     THEN OV(a[1].xs[a[2].i + 1]) ELSE OX
                [] OTHER -> OX)
    [] name = "contains?" ->
         IF n # 2 THEN OE
         ELSE (CASE a[1].t = "nil" -> IF IsKeyable(a[2]) THEN OV(FalseV) ELSE OX
                [] a[1].t \in {"map", "set"} -> IF IsKeyable(a[2]) THEN OV(BoolV(KeyOf(a[2]) \in DOMAIN a[1].m)) ELSE OX
                [] a[1].t = "vec" -> OX
                [] OTHER -> IF IsKeyable(a[2]) THEN OE ELSE OX)
    [] name = "keys" -> IF n # 1 THEN OE ELSE IF a[1].t = "map" THEN Unordered(KeySeq(a[1].m))
                        ELSE IF a[1].t = "nil" THEN OX ELSE OE
    [] name = "vals" -> IF n # 1 THEN OE ELSE IF a[1].t = "map" THEN Unordered(ValSeq(a[1].m))
                        ELSE IF a[1].t = "nil" THEN OX ELSE OE
    \* nil stands for the empty map, except that (merge nil nil) is nil (tests/stepE_merge_assert.mal)
    [] name = "merge" -> IF n # 2 THEN OX
                         ELSE IF a[1].t = "map" /\ a[2].t = "map" THEN OV(MapV(MapMerge(a[1].m, a[2].m)))
                         ELSE IF a[1].t = "nil" /\ a[2].t = "map" THEN OV(a[2])
                         ELSE IF a[1].t = "map" /\ a[2].t = "nil" THEN OV(a[1])
                         ELSE IF a[1].t = "nil" /\ a[2].t = "nil" THEN OV(NilV) ELSE OE
    [] name = "rename-keys" ->
         IF n # 2 THEN OE
         ELSE IF a[1].t # "map" \/ a[2].t # "map" THEN (IF a[1].t = "nil" \/ a[2].t = "nil" THEN OX ELSE OE)
         ELSE LET src == DOMAIN a[1].m
                  ren(k) == IF k \in DOMAIN a[2].m THEN a[2].m[k] ELSE KeyVal(k)
              IN IF \E k \in src : ~IsKeyable(ren(k)) THEN OX
                 ELSE IF \E k1, k2 \in src : k1 # k2 /\ KeyOf(ren(k1)) = KeyOf(ren(k2)) THEN OX
                 ELSE OV(MapV([x \in {KeyOf(ren(k)) : k \in src} |->
                                 a[1].m[CHOOSE k \in src : KeyOf(ren(k)) = x]]))
    [] name = "get-in" -> IF n # 2 THEN OE
                          ELSE IF a[2].t # "vec" THEN (IF a[1].t = "nil" THEN OX ELSE OE)
                          ELSE GetIn(a[1], a[2].xs, 1)
    [] name = "assoc-in" -> IF n # 3 THEN OE
                            ELSE IF a[2].t # "vec" THEN OE
                            ELSE IF a[2].xs = <<>> THEN (IF IsColl(a[1]) THEN OV(a[1]) ELSE OX)
                            ELSE AssocIn(a[1], a[2].xs, 1, a[3])
    [] name = "set" -> IF n # 1 THEN OE
                       ELSE IF a[1].t = "nil" THEN OV(SetV(EmptyMap))
                       ELSE IF ~IsSeq(a[1]) THEN (IF a[1].t \in {"set", "map"} THEN OX ELSE OE)
                       ELSE IF AllKeyable(a[1].xs) THEN OV(SetV(SetOfSeq(a[1].xs))) ELSE OE
    [] name = "hash-set" -> IF AllKeyable(a) THEN OV(SetV(SetOfSeq(a))) ELSE OE
    [] name = "symbol" -> IF n # 1 THEN OE ELSE IF a[1].t = "str" THEN OV(SymV(a[1].s))
                          ELSE IF a[1].t = "kw" THEN OX ELSE OE
    [] name = "keyword" -> IF n # 1 THEN OE ELSE IF a[1].t = "str" THEN OV(KwV(a[1].s))
                           ELSE IF a[1].t = "kw" THEN OV(a[1]) ELSE OE
    [] name = "pr-str" -> IF \E k \in 1..n : HasUnorderedInside(a[k]) THEN OX
                          ELSE OV(StrV(Join([k \in 1..n |-> PrStr(a[k])], " ")))
    [] name = "str" -> IF \E k \in 1..n : HasUnorderedInside(a[k]) THEN OX
                       ELSE OV(StrV(Join([k \in 1..n |-> StrPlain(a[k])], "")))
    \* metadata is not part of a value (equality and printing ignore it): with-meta returns
    \* its argument as a value; what meta returns is left to a later extension of the model
    [] name = "with-meta" -> IF n # 2 THEN OE
                             ELSE IF a[1].t \in {"list", "vec", "map", "set", "fn", "bfn"} THEN OV(a[1]) ELSE OE
    [] name = "meta" -> OX
    \* (assert x [message]): an error when x is nil or false, nil otherwise
    [] name = "assert" -> IF n \notin {1, 2} THEN OE ELSE IF Truthy(a[1]) THEN OV(NilV) ELSE OE
    \* (split s sep): the pieces of s between occurrences of sep, as a vector; an empty sep splits into
    \* characters (tests/stepH_strings.mal)
    [] name = "split" -> IF n # 2 THEN OE
                         ELSE IF a[1].t = "kw" \/ a[2].t = "kw" THEN OX     \* keywords are strings to the Go binder
                         ELSE IF a[1].t # "str" \/ a[2].t # "str" THEN OE
                         ELSE OV(VecV([k \in 1..Len(SplitStr(a[1].s, a[2].s)) |-> StrV(SplitStr(a[1].s, a[2].s)[k])]))
    [] name = "type?" -> IF n # 1 THEN OE
                         ELSE (CASE a[1].t = "nil" -> OV(StrV("nil")) [] a[1].t = "list" -> OV(StrV("list"))
                                 [] a[1].t = "map" -> OV(StrV("hash-map")) [] a[1].t = "vec" -> OV(StrV("vector"))
                                 [] a[1].t = "set" -> OV(StrV("set")) [] a[1].t = "int" -> OV(StrV("integer"))
                                 [] a[1].t = "bool" -> OV(StrV("boolean")) [] a[1].t = "sym" -> OV(StrV("symbol"))
                                 [] a[1].t = "kw" -> OV(StrV("keyword")) [] a[1].t = "str" -> OV(StrV("string"))
                                 [] a[1].t = "fn" -> OV(StrV("function")) [] a[1].t = "bfn" -> OV(StrV("go-function"))
                                 [] a[1].t = "atom" -> OV(StrV("atom")) [] a[1].t = "fut" -> OV(StrV("future-call"))
                                 [] OTHER -> OX)
    [] name = "future?" -> IF n # 1 THEN OE ELSE OV(BoolV(a[1].t = "fut"))
    \* printing builtins: their output is outside the model, their value is nil
    [] name \in {"prn", "println"} -> OV(NilV)
    [] name = "read-string" -> IF n # 1 THEN OE
                               ELSE IF a[1].t # "str" THEN OE
                               ELSE LET r == Read(a[1].s) IN
                                 IF r.st = "ok" THEN OV(r.v)
                                 ELSE IF r.st = "unspec" THEN OX ELSE OE
=============================================================================
