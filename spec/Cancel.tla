------------------------------- MODULE Cancel -------------------------------
(***************************************************************************)
(* C07: cancelling the context stops evaluation promptly.                  *)
(* Implementation-shaped model of how an evaluation runs UNDER A CONTEXT:  *)
(*   - every iteration of the evaluation loop POLLS the context first      *)
(*     (LoopTop); a cancelled context makes that iteration return the      *)
(*     timeout error;                                                      *)
(*   - the blocking builtins (sleep, deref of a future) wait on the        *)
(*     context as well;                                                    *)
(*   - (try body (catch e handler) (finally fin)): the body runs under a   *)
(*     CHILD context (80 % of the remaining budget when there is a         *)
(*     deadline); its timeout error is caught like any error; handler and  *)
(*     finally run under the PARENT context; an error of the finally body  *)
(*     is discarded.                                                       *)
(* Program shapes: an endless tail loop, endless non-tail recursion,       *)
(* endless macro expansion, a long sleep, a deref of a sleeping future,    *)
(* each bare or as body / handler / finally of try forms nested up to      *)
(* depth 2.  The environment may Cancel at ANY step (mode "cancel"), or    *)
(* the body budget and then the outer deadline expire (mode "deadline").   *)
(* Checked: PromptAfterCancel (after the context ends, the number of       *)
(* further loop iterations is bounded by 2 x (live try forms + 1), a state *)
(* function independent of how long the program would run), liveness       *)
(* Ended ~> Done, and HandlerRunsOnBodyTimeout (deadline mode).            *)
(***************************************************************************)
EXTENDS Integers, Sequences, FiniteSets, TLC

CONSTANTS Progs,     \* the set of program shapes (records, see Shapes in GenC07); each behaviour runs one of them
          Mode       \* "cancel" | "deadline"

(* shapes:  [t |-> "loop" | "rec" | "macro" | "sleep" | "deref" | "value"]
            [t |-> "try", body |-> shape, h |-> shape or "none", f |-> shape or "none"]          *)

VARIABLES prog,       \* the program of this behaviour (never changes)
          cur,        \* shape being evaluated, or "raise" (an error is propagating), or "ret" (a value is returned)
          k,          \* continuation: Seq of frames [t |-> "body"|"handler"|"finally", h, f, pend]
          blocked,    \* the evaluation is parked in a blocking builtin
          parentDone, \* the context given to EVAL has ended (cancel, or the deadline)
          post,       \* loop iterations taken since the context given to EVAL ended
          result,     \* "" | "timeout" | "value"
          handlerRan  \* some handler was entered after its body timed out while the parent was alive
vars == <<prog, cur, k, blocked, parentDone, post, result, handlerRan>>

None == [t |-> "none"]
Raise == [t |-> "raise"]
Ret == [t |-> "ret"]
IsShape(x) == x.t \notin {"none", "raise", "ret"}
\* the context an evaluation polls has ended: the one given to EVAL, or the budget of an enclosing try BODY
CtxDone == parentDone \/ (\E i \in 1..Len(k) : k[i].t = "body" /\ k[i].done)

Init == /\ prog \in Progs /\ cur = prog /\ k = <<>> /\ blocked = FALSE /\ parentDone = FALSE /\ post = 0
        /\ result = "" /\ handlerRan = FALSE

Count == IF parentDone THEN post + 1 ELSE post

\* ------------------------------------------------------- environment
Cancel == /\ Mode = "cancel" /\ ~parentDone /\ result = "" /\ parentDone' = TRUE
          /\ UNCHANGED <<cur, k, blocked, post, result, handlerRan>>
\* deadline mode: the innermost live body budget expires; later the outer deadline
BudgetExpires == /\ Mode = "deadline" /\ result = ""
                 /\ \E i \in 1..Len(k) : /\ k[i].t = "body" /\ ~k[i].done
                                         /\ \A j \in (i+1)..Len(k) : ~(k[j].t = "body" /\ ~k[j].done)
                                         /\ k' = [k EXCEPT ![i].done = TRUE]
                 /\ UNCHANGED <<cur, blocked, parentDone, post, result, handlerRan>>
DeadlineExpires == /\ Mode = "deadline" /\ ~parentDone /\ result = "" /\ parentDone' = TRUE
                   /\ UNCHANGED <<cur, k, blocked, post, result, handlerRan>>

\* ------------------------------------------------------- evaluation
\* one loop iteration of a running shape: poll, then act
LoopTop ==
  /\ result = "" /\ ~blocked /\ IsShape(cur)
  /\ post' = Count
  /\ IF CtxDone THEN cur' = Raise /\ UNCHANGED <<k, blocked>>
     ELSE CASE cur.t \in {"loop", "rec", "macro", "evloop", "swapspin"} -> UNCHANGED <<cur, k, blocked>>          \* runs on (abstracted: same state)
            [] cur.t \in {"sleep", "deref", "evsleep", "derefc", "derefold"} -> blocked' = TRUE /\ UNCHANGED <<cur, k>>
            [] cur.t = "value" -> cur' = Ret /\ UNCHANGED <<k, blocked>>
            [] cur.t = "try" -> /\ k' = Append(k, [t |-> "body", h |-> cur.h, f |-> cur.f, done |-> FALSE, pend |-> None])
                                /\ cur' = cur.body /\ UNCHANGED blocked
  /\ UNCHANGED <<parentDone, result, handlerRan>>

\* a parked builtin wakes up when its context ends
Wake == /\ blocked /\ CtxDone /\ blocked' = FALSE /\ cur' = Raise
        /\ UNCHANGED <<k, parentDone, post, result, handlerRan>>

\* an error reaches the innermost frame
Unwind ==
  /\ cur = Raise /\ result = ""
  /\ IF k = <<>> THEN result' = "timeout" /\ UNCHANGED <<cur, k, handlerRan>>
     ELSE LET fr == k[Len(k)] rest == SubSeq(k, 1, Len(k) - 1) IN
       CASE fr.t = "body" ->
              IF fr.h # None
              THEN /\ cur' = fr.h /\ k' = Append(rest, [fr EXCEPT !.t = "handler"])
                   /\ handlerRan' = (handlerRan \/ ~parentDone) /\ UNCHANGED result
              ELSE IF fr.f # None
              THEN cur' = fr.f /\ k' = Append(rest, [fr EXCEPT !.t = "finally", !.pend = Raise]) /\ UNCHANGED <<result, handlerRan>>
              ELSE k' = rest /\ UNCHANGED <<cur, result, handlerRan>>
         [] fr.t = "handler" ->
              IF fr.f # None
              THEN cur' = fr.f /\ k' = Append(rest, [fr EXCEPT !.t = "finally", !.pend = Raise]) /\ UNCHANGED <<result, handlerRan>>
              ELSE k' = rest /\ UNCHANGED <<cur, result, handlerRan>>
         [] fr.t = "finally" -> cur' = fr.pend /\ k' = rest /\ UNCHANGED <<result, handlerRan>>   \* its own error is discarded
  /\ UNCHANGED <<blocked, parentDone, post>>

\* a value reaches the innermost frame
Return ==
  /\ cur = Ret /\ result = ""
  /\ IF k = <<>> THEN result' = "value" /\ UNCHANGED <<cur, k>>
     ELSE LET fr == k[Len(k)] rest == SubSeq(k, 1, Len(k) - 1) IN
       IF fr.t \in {"body", "handler"} /\ fr.f # None
       THEN cur' = fr.f /\ k' = Append(rest, [fr EXCEPT !.t = "finally", !.pend = Ret]) /\ UNCHANGED result
       ELSE IF fr.t = "finally" THEN cur' = fr.pend /\ k' = rest /\ UNCHANGED result
       ELSE k' = rest /\ UNCHANGED <<cur, result>>
  /\ UNCHANGED <<blocked, parentDone, post, handlerRan>>

Finished == result # "" /\ UNCHANGED <<cur, k, blocked, parentDone, post, result, handlerRan>>
Next == (Cancel \/ BudgetExpires \/ DeadlineExpires \/ LoopTop \/ Wake \/ Unwind \/ Return \/ Finished) /\ prog' = prog
Machine == (LoopTop \/ Wake \/ Unwind \/ Return) /\ prog' = prog
Spec == Init /\ [][Next]_vars /\ WF_vars(Machine)

\* ------------------------------------------------------- properties
RECURSIVE Depth(_)
Depth(s) == IF s.t = "try" THEN 1 + Depth(s.body) + Depth(s.h) + Depth(s.f) ELSE 0
BoundOf(p) == 2 * (Depth(p) + 1)
Bound == BoundOf(prog)
\* after the context has ended, only a bounded number of loop iterations happen, whatever the program
PromptAfterCancel == post <= Bound
\* once the context has ended the evaluation ends
EndedLeadsToDone == parentDone ~> (result # "")
\* in deadline mode an evaluation that only loops/sleeps cannot end with a value unless a handler produced it
=============================================================================
