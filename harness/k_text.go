package main

import (
	"context"
	"fmt"
	"strings"
	"sync"
	"time"

	"github.com/jig/lisp"
	"github.com/jig/lisp/reader"
	"github.com/jig/lisp/repl"
	"github.com/jig/lisp/types"
)

func init() {
	kinds["text"] = runText
}

// propFlag selects which clause family a text case is judged for (C05 | C06 | C16).
var propFlag = "C05"

var envPool = sync.Pool{New: func() interface{} {
	ns, _, err := NewLoadedEnv()
	if err != nil {
		panic(err)
	}
	return ns
}}

type textCase struct {
	Cls    string `json:"cls"`
	Closer string `json:"closer"`
	V      *Node  `json:"v"`
}

type readObs struct {
	API   string `json:"api"`
	K     string `json:"k"` // ok | err | panic | hang
	Msg   string `json:"msg,omitempty"`
	Site  string `json:"site,omitempty"`
	V     *Node  `json:"v,omitempty"`
	Multi bool   `json:"multi,omitempty"`
}

func readVia(api string, text string, ns types.EnvType) readObs {
	o := readObs{API: api}
	var v types.MalType
	var err error
	module := "mod"
	ph := &types.HashMap{Val: map[string]types.MalType{"$a": 1, "$A": "s", "$1": types.List{Val: []types.MalType{1, 2}}}}
	kind, site, msg := guarded(5*time.Second, func() {
		switch api {
		case "READ-nil":
			v, err = lisp.READ(text, nil, nil)
		case "READ":
			v, err = lisp.READ(text, types.NewCursorFile(module), ns)
		case "READWithPreamble":
			v, err = lisp.READWithPreamble(text, nil, ns)
		case "READWithPreamble-nil":
			v, err = lisp.READWithPreamble(text, nil, nil)
		case "Read_str-emptyph":
			v, err = reader.Read_str(text, nil, &types.HashMap{Val: map[string]types.MalType{}}, ns)
		case "Read_str-ph":
			v, err = reader.Read_str(text, nil, ph, ns)
		case "Read_str-nilph-noenv":
			v, err = reader.Read_str(text, nil, nil)
		case "read-string":
			v, err = lisp.EVAL(context.Background(), types.List{Val: []types.MalType{types.Symbol{Val: "read-string"}, text}}, ns)
		}
		if err == nil {
			_ = lisp.PRINT(v)
		}
	})
	if kind != "" {
		o.K, o.Site, o.Msg = kind, site, msg
		return o
	}
	if err != nil {
		o.K, o.Msg = "err", err.Error()
		o.Multi = repl.VerifMultiLine(err)
		return o
	}
	o.K = "ok"
	n := FromMal(v)
	o.V = &n
	return o
}

var readAPIs = []string{"READ-nil", "READ", "READWithPreamble", "READWithPreamble-nil", "Read_str-emptyph", "Read_str-ph",
	"Read_str-nilph-noenv", "read-string"}

func hasFloat(n Node) bool {
	if n.T == "other" {
		return true
	}
	for _, x := range n.Xs {
		if hasFloat(x) {
			return true
		}
	}
	for _, x := range n.M {
		if hasFloat(x) {
			return true
		}
	}
	return false
}

func runText(c *Case) Verdict {
	// U+2400 stands for the NUL character in generated texts (a TLA+ string cannot hold one)
	if strings.Contains(c.Text, "\u2400") {
		cc := *c
		cc.Text = strings.ReplaceAll(c.Text, "\u2400", "\x00")
		c = &cc
	}
	ns := envPool.Get().(types.EnvType)
	defer envPool.Put(ns)
	v := Verdict{Class: c.Cls}
	obs := []readObs{}
	switch propFlag {
	case "C05":
		// totality: no API panics or hangs, whatever the text
		for _, api := range readAPIs {
			o := readVia(api, c.Text, ns)
			if o.K == "panic" || o.K == "hang" {
				obs = append(obs, o)
			}
		}
		if len(obs) > 0 {
			v.Verdict = obs[0].K
			v.Key = fmt.Sprintf("%s:%s:%s", obs[0].K, obs[0].Site, obs[0].API)
			v.Note = fmt.Sprintf("%s %s on %q: %s", obs[0].API, obs[0].K, c.Text, obs[0].Msg)
			v.Obs = obs
			return v
		}
		v.Verdict = "ok"
		return v
	case "C16":
		o := readVia("READ", c.Text, ns)
		v.Obs = o
		if o.K == "panic" || o.K == "hang" {
			// C05's business; C16 cannot judge
			v.Verdict = "abstain"
			return v
		}
		switch c.Cls {
		case "incomplete":
			want := "expected '" + c.Closer + "', got EOF"
			if o.K != "err" || !o.Multi || !strings.Contains(o.Msg, want) {
				v.Verdict = "mismatch"
				v.Key = fmt.Sprintf("class:incomplete(%s)->%s", c.Closer, classOf(o))
				v.Note = fmt.Sprintf("%q is completable with %s but READ gave %s %q", c.Text, c.Closer, o.K, o.Msg)
				return v
			}
		case "ok":
			if o.K == "err" && (o.Multi || strings.Contains(o.Msg, "got EOF")) {
				v.Verdict = "mismatch"
				v.Key = "class:complete->incomplete"
				v.Note = fmt.Sprintf("complete expression %q reported incomplete: %q", c.Text, o.Msg)
				return v
			}
			if o.K == "err" {
				v.Verdict = "mismatch"
				v.Key = "class:complete->error"
				v.Note = fmt.Sprintf("complete expression %q rejected: %q", c.Text, o.Msg)
				return v
			}
		case "malformed":
			if c.Closer == "underflow" {
				// input ends after a reader macro: neither completable by closers nor a
				// surplus closer / second expression; the property does not classify it
				v.Verdict = "abstain"
				return v
			}
			if o.K != "err" || o.Multi {
				v.Verdict = "mismatch"
				v.Key = fmt.Sprintf("class:malformed(%s)->%s", c.Closer, classOf(o))
				v.Note = fmt.Sprintf("malformed %q (%s): READ gave %s %q multi=%v", c.Text, c.Closer, o.K, o.Msg, o.Multi)
				return v
			}
		default:
			v.Verdict = "abstain"
			return v
		}
		v.Verdict = "ok"
		return v
	case "C06":
		// accepted texts without floats: READ, PRINT, READ again gives an equal value
		o := readVia("READ", c.Text, ns)
		if o.K != "ok" || hasFloat(*o.V) {
			v.Verdict = "abstain"
			return v
		}
		var second readObs
		var printed string
		kind, site, msg := guarded(5*time.Second, func() {
			first, _ := lisp.READ(c.Text, nil, ns)
			printed = lisp.PRINT(first)
			second = readVia("READ", printed, ns)
		})
		if kind != "" {
			v.Verdict = "abstain"
			v.Note = kind + site + msg
			return v
		}
		v.Obs = map[string]interface{}{"first": o.V, "printed": printed, "second": second}
		if second.K != "ok" || !EqualNode(*o.V, *second.V) {
			v.Verdict = "mismatch"
			v.Key = "roundtrip-text:" + mainFeature(strKind(*o.V), c.Text) + ":" + strKind(*o.V)
			v.Note = fmt.Sprintf("text %q reads as %s, prints as %q, which reads as %s %s", c.Text, Canon(*o.V), printed, second.K, second.Msg)
			return v
		}
		// drift diagnostic: the definition layer's value for this text
		if c.Cls == "ok" && c.V != nil && !EqualNode(*c.V, *o.V) {
			v.Verdict = "mismatch"
			v.Key = "reader-vs-definition:" + mainFeature(strKind(*o.V), c.Text) + ":" + strKind(*o.V)
			v.Note = fmt.Sprintf("text %q: definition reads %s, code reads %s", c.Text, Canon(*c.V), Canon(*o.V))
			return v
		}
		v.Verdict = "ok"
		return v
	}
	return Verdict{Verdict: "infra", Note: "unknown -prop " + propFlag}
}

func classOf(o readObs) string {
	if o.K == "err" {
		if o.Multi {
			return "incomplete"
		}
		return "error"
	}
	return o.K
}

// coarse description of a value for finding keys
func strKind(n Node) string {
	switch n.T {
	case "str":
		feat := []string{}
		if strings.HasPrefix(n.S, kwMark) {
			feat = append(feat, "U+029E-first")
		} else if strings.Contains(n.S, kwMark) {
			feat = append(feat, "U+029E")
		}
		if strings.Contains(n.S, "\x00") {
			feat = append(feat, "NUL")
		}
		if strings.Contains(n.S, "\\") {
			feat = append(feat, "backslash")
		}
		if strings.HasPrefix(n.S, `{"`) {
			feat = append(feat, "jsonlike")
		}
		return "str[" + strings.Join(feat, ",") + "]"
	case "list", "vec":
		for _, x := range n.Xs {
			if k := strKind(x); strings.HasPrefix(k, "str[") && k != "str[]" {
				return n.T + "/" + k
			}
		}
	case "map":
		for _, x := range n.M {
			if k := strKind(x); strings.HasPrefix(k, "str[") && k != "str[]" {
				return n.T + "/" + k
			}
		}
	}
	return n.T
}

// mainFeature names the principal cause class of a string-fidelity finding, so that a
// known finding about one class never hides another.
func mainFeature(kind string, text string) string {
	if strings.Contains(kind, "U+029E-first") || strings.Contains(text, "\""+kwMark) || strings.Contains(text, "¬"+kwMark) {
		return "U+029E-first"
	}
	for _, f := range []string{"NUL", "U+029E", "jsonlike", "backslash"} {
		if strings.Contains(kind, f) {
			return f
		}
	}
	return "plain"
}
