package main

import (
	"context"
	"fmt"
	"strings"
	"sync"
	"sync/atomic"
	"time"

	"github.com/jig/lisp"
	"github.com/jig/lisp/types"
)

func init() {
	kinds["cancel"] = runCancel
}

type cancelCase struct {
	Shape int `json:"shape"`
	Bound int `json:"bound"`
}

const cancelPrelude = `(do (def lp (fn [n] (lp (+ n 1))))
 (def rc (fn [n] (if (< n 1) 0 (+ 1 (rc (- n 1))))))
 (def rcl (fn [] (rc 300) (rcl)))
 (defmacro spin (fn [] '(spin)))
 (def spa (atom 0))
 (def oldfut (future (busy! 30000))))`

var cancelMu sync.Mutex // the loop-top hook is process-wide

// once an evaluation has failed to return it keeps running (and burning a core) in this process:
// further timing-sensitive cases would be judged on a degraded machine, so they are skipped
var cancelTainted int32

func cancelEnv() (types.EnvType, *Probe, error) {
	ns, probe, err := NewLoadedEnv()
	if err != nil {
		return nil, nil, err
	}
	// a host call that ignores cancellation
	ns.Set(types.Symbol{Val: "busy!"}, types.Func{Fn: func(_ context.Context, a []types.MalType) (types.MalType, error) {
		ms, _ := a[0].(int)
		time.Sleep(time.Duration(ms) * time.Millisecond)
		return nil, nil
	}})
	pre, rerr := lisp.READ(cancelPrelude, nil, ns)
	if rerr != nil {
		return nil, nil, rerr
	}
	if _, e := lisp.EVAL(context.Background(), pre, ns); e != nil {
		return nil, nil, e
	}
	return ns, probe, nil
}

func isTimeoutErr(err error) bool {
	return err != nil && strings.Contains(err.Error(), "timeout")
}

// cancel mode: the context is cancelled at the k-th iteration of the evaluation loop (or, when the
// evaluation parks in a blocking builtin before that, while it is parked); afterwards the evaluation
// may take at most `bound` more loop iterations and must return.
func runCancel(c *Case) Verdict {
	if c.Mode == "deadline" {
		return runDeadline(c)
	}
	cancelMu.Lock()
	defer cancelMu.Unlock()
	v := Verdict{Class: "cancel"}
	if atomic.LoadInt32(&cancelTainted) != 0 {
		v.Verdict = "skip"
		return v
	}
	instants := []int{1, 2, 3, 4, 5, 7, 10, 15, 25, 60, 200, 1500}
	for i := 0; i < 2*len(instants); i++ {
		k := instants[i%len(instants)]
		farDeadline := i >= len(instants) // the cancelled context also carries a deadline that is far away
		ns, _, err := cancelEnv()
		if err != nil {
			return Verdict{Verdict: "infra", Note: err.Error()}
		}
		ast, rerr := lisp.READ(c.Src, nil, ns)
		if rerr != nil {
			return Verdict{Verdict: "infra", Note: rerr.Error()}
		}
		parent := context.Background()
		if farDeadline {
			var cf context.CancelFunc
			parent, cf = context.WithDeadline(parent, time.Now().Add(time.Hour))
			defer cf()
		}
		ctx, cancel := context.WithCancel(parent)
		var mainG int64
		var count, post int64
		var cancelled int32
		lisp.VerifLoopTop = func(_ context.Context, _ types.MalType, _ types.EnvType) {
			if goid() != atomic.LoadInt64(&mainG) {
				return
			}
			if atomic.LoadInt32(&cancelled) == 1 {
				atomic.AddInt64(&post, 1)
				return
			}
			if atomic.AddInt64(&count, 1) == int64(k) {
				atomic.StoreInt32(&cancelled, 1)
				cancel()
			}
		}
		type outcome struct {
			res types.MalType
			err error
			pan interface{}
		}
		done := make(chan outcome, 1)
		go func() {
			atomic.StoreInt64(&mainG, goid())
			var o outcome
			func() {
				defer func() { o.pan = recover() }()
				o.res, o.err = lisp.EVAL(ctx, ast, ns)
			}()
			done <- o
		}()
		var o outcome
		finished := false
		var cancelAt time.Time
		last := int64(-1)
		stalled := 0
	wait:
		for {
			select {
			case o = <-done:
				finished = true
				break wait
			case <-time.After(10 * time.Millisecond):
				if atomic.LoadInt32(&cancelled) == 1 {
					if cancelAt.IsZero() {
						cancelAt = time.Now()
					}
					if time.Since(cancelAt) > 5*time.Second {
						break wait
					}
					continue
				}
				// not cancelled yet: parked in a blocking builtin?  (no loop iteration for 40 ms)
				cur := atomic.LoadInt64(&count)
				if cur == last {
					stalled++
				} else {
					stalled, last = 0, cur
				}
				if stalled >= 4 {
					atomic.StoreInt32(&cancelled, 1)
					cancel()
					cancelAt = time.Now()
				}
			}
		}
		lisp.VerifLoopTop = nil
		cancel()
		where := fmt.Sprintf("shape %d %q, context cancelled at loop iteration %d", c.Shape, c.Src, k)
		if farDeadline {
			where += " (the context also has a deadline one hour away)"
		}
		if !finished {
			atomic.StoreInt32(&cancelTainted, 1)
			v.Verdict = "hang"
			v.Key = "cancel:not-returned:" + hangSite()
			v.Note = where + ": EVAL had not returned 5 s after the cancellation (" + fmt.Sprint(atomic.LoadInt64(&post)) + " loop iterations since)"
			return v
		}
		if o.pan != nil {
			v.Verdict = "panic"
			v.Key = "panic:under-cancelled-context"
			v.Note = where + ": " + fmt.Sprint(o.pan)
			return v
		}
		if p := atomic.LoadInt64(&post); p > int64(c.Bound) {
			v.Verdict = "mismatch"
			v.Key = "cancel:too-many-iterations-after-cancel"
			v.Note = fmt.Sprintf("%s: %d loop iterations after the cancellation, the model allows %d", where, p, c.Bound)
			return v
		}
		if !strings.Contains(c.Src, "try") && !isTimeoutErr(o.err) {
			v.Verdict = "mismatch"
			v.Key = "cancel:no-timeout-error"
			v.Note = fmt.Sprintf("%s: returned %v / %v instead of a timeout error", where, o.res, o.err)
			return v
		}
	}
	v.Verdict = "ok"
	return v
}

// deadline mode (wall clock, coarse): a real context.WithTimeout(D).  The evaluation must be back by
// D + slack; a try whose handler is a plain value must return that value (the body only gets 80 %).
func runDeadline(c *Case) Verdict {
	v := Verdict{Class: "deadline"}
	D := 1200 * time.Millisecond
	slack := 2500 * time.Millisecond
	if strings.Contains(c.Src, "(swap! spa") && !strings.Contains(c.Src, "try") {
		// a swap! that has been retrying for a while: whatever it does between two attempts must not grow with the
		// time it has already spent
		D = 4500 * time.Millisecond
	}
	attempt := func() (string, string) {
		ns, probe, err := cancelEnv()
		if err != nil {
			return "infra", err.Error()
		}
		ast, rerr := lisp.READ(c.Src, nil, ns)
		if rerr != nil {
			return "infra", rerr.Error()
		}
		ctx, cancel := context.WithTimeout(context.Background(), D)
		defer cancel()
		type outcome struct {
			res types.MalType
			err error
		}
		done := make(chan outcome, 1)
		t0 := time.Now()
		go func() {
			var o outcome
			defer func() {
				if r := recover(); r != nil {
					o.err = fmt.Errorf("PANIC %v", r)
				}
				done <- o
			}()
			o.res, o.err = lisp.EVAL(ctx, ast, ns)
		}()
		select {
		case o := <-done:
			el := time.Since(t0)
			if o.err != nil && strings.HasPrefix(o.err.Error(), "PANIC") {
				return "panic", o.err.Error()
			}
			wantValue := c.Opt["expect"] == "value"
			if wantValue && (o.err != nil || o.res != kwMark+"h") {
				return "handler-value-lost", fmt.Sprintf("returned %v / %v after %v; the handler's value :h was expected", o.res, o.err, el)
			}
			if want := c.Opt["effects"]; wantValue && want != "" {
				var got []string
				for _, e := range probe.effects() {
					got = append(got, ":"+e.S)
				}
				if strings.Join(got, " ") != want {
					return "handler-or-finally-cut-short", fmt.Sprintf("effects [%s] after %v; [%s] expected: every form of the handler and of the finally body runs", strings.Join(got, " "), el, want)
				}
			}
			if !wantValue && c.Opt["expect"] == "timeout" && !isTimeoutErr(o.err) {
				return "no-timeout-error", fmt.Sprintf("returned %v / %v after %v", o.res, o.err, el)
			}
			return "", ""
		case <-time.After(D + slack):
			atomic.StoreInt32(&cancelTainted, 1)
			return "not-returned-after-deadline", fmt.Sprintf("still running %v after a %v deadline (%s)", D+slack, D, hangSite())
		}
	}
	if atomic.LoadInt32(&cancelTainted) != 0 {
		v.Verdict = "skip"
		return v
	}
	what, detail := "", ""
	for try := 0; try < 3; try++ { // wall clock: reported only if it fails three times
		what, detail = attempt()
		if what == "" || what == "infra" || what == "not-returned-after-deadline" {
			break // (a run that never returns is not a timing fluke, and it keeps a core busy)
		}
	}
	if what == "infra" {
		return Verdict{Verdict: "infra", Note: detail}
	}
	if what != "" {
		v.Verdict = "mismatch"
		v.Key = "deadline:" + what
		v.Note = fmt.Sprintf("shape %d %q: %s", c.Shape, c.Src, detail)
		return v
	}
	v.Verdict = "ok"
	return v
}
