package main

import (
	"context"
	"errors"
	"fmt"
	"runtime"
	"strings"
	"sync"

	"github.com/jig/lisp"
	"github.com/jig/lisp/env"
	"github.com/jig/lisp/lib/call"
	"github.com/jig/lisp/lib/concurrent/nsconcurrent"
	"github.com/jig/lisp/lib/core/nscore"
	"github.com/jig/lisp/lib/coreextented/nscoreextended"
	"github.com/jig/lisp/types"
)

var (
	errRaise = errors.New("verif raise! sentinel")
	errBoom  = errors.New("verif boom! sentinel")
)

func init() {
	errClass = func(err error) string {
		switch {
		case errors.Is(err, errRaise):
			return "raise"
		case errors.Is(err, errBoom):
			return "boom"
		}
		if _, ok := userErrMessage(err); ok {
			return "user"
		}
		return ""
	}
}

// userErrMessage: an error object made by the program with (go-error "user:...") -- found anywhere in the
// Unwrap chain -- and its message.
func userErrMessage(err error) (string, bool) {
	for e := err; e != nil; e = errors.Unwrap(e) {
		if _, isLisp := e.(interface{ ErrorValue() types.MalType }); isLisp {
			continue
		}
		if m := e.Error(); strings.HasPrefix(m, "user:") {
			return m, true
		}
	}
	return "", false
}

// Probe collects what the harness builtins observe during one run.
type Probe struct {
	mu     sync.Mutex
	Eff    []Node
	EffBy  map[int64][]Node // effects per goroutine (concurrent evaluations on one environment)
	Depths []int
	Cancel context.CancelFunc
}

func (p *Probe) effects() []Node {
	p.mu.Lock()
	defer p.mu.Unlock()
	out := make([]Node, len(p.Eff))
	copy(out, p.Eff)
	return out
}

// NewLoadedEnv builds a fresh environment with the standard libraries in the
// load order of cmd/lisp, plus the harness probes.
func NewLoadedEnv() (types.EnvType, *Probe, error) {
	ns := env.NewEnv()
	for _, load := range []func(types.EnvType) error{
		nscore.Load, nscore.LoadInput, nscore.LoadNullArgs, nsconcurrent.Load, nscoreextended.Load,
	} {
		if err := load(ns); err != nil {
			return nil, nil, err
		}
	}
	p := &Probe{}
	installProbes(ns, p)
	return ns, p, nil
}

func installProbes(ns types.EnvType, p *Probe) {
	ns.Set(types.Symbol{Val: "trace!"}, types.Func{Fn: func(_ context.Context, a []types.MalType) (types.MalType, error) {
		if len(a) != 1 {
			return nil, fmt.Errorf("trace!: wrong number of arguments (%d instead of 1)", len(a))
		}
		n := FromMal(a[0])
		p.mu.Lock()
		p.Eff = append(p.Eff, n)
		if p.EffBy != nil {
			g := goid()
			p.EffBy[g] = append(p.EffBy[g], n)
		}
		p.mu.Unlock()
		return a[0], nil
	}})
	ns.Set(types.Symbol{Val: "depth!"}, types.Func{Fn: func(_ context.Context, a []types.MalType) (types.MalType, error) {
		pcs := make([]uintptr, 512)
		d := 0
		for {
			n := runtime.Callers(0, pcs)
			if n < len(pcs) {
				d = n
				break
			}
			pcs = make([]uintptr, 2*len(pcs))
		}
		p.mu.Lock()
		p.Depths = append(p.Depths, d)
		p.mu.Unlock()
		if len(a) > 0 {
			return a[0], nil
		}
		return nil, nil
	}})
	ns.Set(types.Symbol{Val: "cancel!"}, types.Func{Fn: func(_ context.Context, a []types.MalType) (types.MalType, error) {
		if p.Cancel != nil {
			p.Cancel()
		}
		return nil, nil
	}})
	// a LISP function running a tail loop of n iterations (the definition layer leaves its call unspecified: it is
	// too long to evaluate there; with a stepper installed every tail step is a nested evaluation)
	if ast, rerr := lisp.READ("(def long-loop! (fn [n] (if (< n 1) :done (long-loop! (- n 1)))))", nil, ns); rerr == nil {
		_, _ = lisp.EVAL(context.Background(), ast, ns)
	}
	// through the reflective binder: error return, panic(error), panic(non-error)
	call.CallOverrideFN(ns, "raise!", func() (types.MalType, error) { return nil, errRaise })
	call.CallOverrideFN(ns, "boom!", func() (types.MalType, error) { panic(errBoom) })
	call.CallOverrideFN(ns, "boom-str!", func() (types.MalType, error) { panic("boom-str") })
	// the same three as RAW host functions (types.Func set directly in the environment, the way nscore registers eval)
	ns.Set(types.Symbol{Val: "rawraise!"}, types.Func{Fn: func(_ context.Context, a []types.MalType) (types.MalType, error) { return nil, errRaise }})
	ns.Set(types.Symbol{Val: "rawboom!"}, types.Func{Fn: func(_ context.Context, a []types.MalType) (types.MalType, error) { panic(errBoom) }})
	ns.Set(types.Symbol{Val: "rawboom-str!"}, types.Func{Fn: func(_ context.Context, a []types.MalType) (types.MalType, error) { panic("boom-str") }})
}

// Obs is what one evaluation did, in the outcome algebra of spec/Def.tla.
type Obs struct {
	K     string          `json:"k"` // val | thr | err | panic | hang
	V     Node            `json:"v"`
	Eff   []Node          `json:"eff"`
	G     map[string]Node `json:"g,omitempty"`
	Site  string          `json:"site,omitempty"`
	Msg   string          `json:"msg,omitempty"`
	Depth []int           `json:"depths,omitempty"`
}

func classifyErr(err error) (string, Node) {
	if ev, ok := err.(interface{ ErrorValue() types.MalType }); ok {
		v := ev.ErrorValue()
		if ge, isErr := v.(error); isErr {
			return "err", errNode(ge)
		}
		return "thr", FromMal(v)
	}
	return "err", errNode(err)
}

// errNode abstracts a Go error: its class, and for a program-made error its message
func errNode(err error) Node {
	n := Node{T: "err", S: errClass(err)}
	if m, ok := userErrMessage(err); ok {
		n.Xs = []Node{{T: "str", S: m}}
	}
	return n
}

// evalForms evaluates the top-level forms in order, stopping at the first error.
func evalForms(ctx context.Context, ns types.EnvType, forms []types.MalType) (res types.MalType, err error) {
	for _, f := range forms {
		res, err = lisp.EVAL(ctx, f, ns)
		if err != nil {
			return nil, err
		}
	}
	return res, nil
}

func lispRead(src string, ns types.EnvType) (types.MalType, error) { return lisp.READ(src, nil, ns) }
