package main

import (
	"context"
	"runtime"
	"strings"
	"sync/atomic"
	"time"

	"github.com/jig/lisp"
	"github.com/jig/lisp/types"
)

func init() {
	kinds["looptops"] = runLoopTops
}

type LoopTop struct {
	A Node `json:"a"`
	D int  `json:"d"` // number of live EVAL activations on the goroutine's stack
}

func evalFrames() int {
	pcs := make([]uintptr, 4096)
	n := runtime.Callers(0, pcs)
	frames := runtime.CallersFrames(pcs[:n])
	d := 0
	for {
		f, more := frames.Next()
		if strings.HasSuffix(f.Function, "github.com/jig/lisp.EVAL") {
			d++
		}
		if !more {
			break
		}
	}
	return d
}

// runLoopTops records, for every iteration of the real evaluation loop, the form it is about to
// evaluate and the number of live EVAL activations.  The recorded sequence is validated by
// spec/TraceEval.tla against the small-step machine of spec/Eval.tla.
func runLoopTops(c *Case) Verdict {
	cancelMu.Lock()
	defer cancelMu.Unlock()
	v := Verdict{Class: "looptops"}
	ns, probe, err := NewLoadedEnv()
	if err != nil {
		return Verdict{Verdict: "infra", Note: err.Error()}
	}
	ctx := context.Background()
	for _, f := range contexts[c.Ctx] {
		if _, e := lisp.EVAL(ctx, ToMal(f), ns); e != nil {
			return Verdict{Verdict: "infra", Note: "context failed: " + e.Error()}
		}
	}
	var tops []LoopTop
	var mainG int64
	lisp.VerifLoopTop = func(_ context.Context, ast types.MalType, _ types.EnvType) {
		if goid() != atomic.LoadInt64(&mainG) || len(tops) > 5000 {
			return
		}
		n := FromMal(ast)
		stripGensym(&n)
		tops = append(tops, LoopTop{A: n, D: evalFrames()})
	}
	var obs Obs
	kind, site, msg := guarded(20*time.Second, func() {
		atomic.StoreInt64(&mainG, goid())
		var res types.MalType
		var eerr error
		for _, f := range c.Forms {
			res, eerr = lisp.EVAL(ctx, ToMal(f), ns)
			if eerr != nil {
				break
			}
		}
		if eerr != nil {
			obs.K, obs.V = classifyErr(eerr)
		} else {
			obs.K, obs.V = "val", FromMal(res)
		}
	})
	lisp.VerifLoopTop = nil
	obs.Eff = probe.effects()
	if kind != "" {
		v.Verdict = kind
		v.Key = kind + ":" + site + ":looptops"
		v.Note = msg
		return v
	}
	v.Verdict = "ok"
	v.Obs = map[string]interface{}{"tops": tops, "k": obs.K}
	return v
}
