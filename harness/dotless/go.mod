module dotless

go 1.18

require github.com/jig/lisp v0.0.0

replace github.com/jig/lisp => /repo
