package main

import (
	"strconv"
	"encoding/json"
	"fmt"
	"sort"
	"strings"

	"github.com/jig/lisp/lib/concurrent"
	"github.com/jig/lisp/types"
)

// Node is the uniform value record of spec/Values.tla.
type Node struct {
	T  string  `json:"t"`
	I  int     `json:"i"`
	S  string  `json:"s"`
	Xs []Node  `json:"xs"`
	M  NodeMap `json:"m"`
}

// NodeMap accepts both a JSON object and the empty array TLC prints for <<>>.
type NodeMap map[string]Node

func (m *NodeMap) UnmarshalJSON(b []byte) error {
	s := strings.TrimSpace(string(b))
	if strings.HasPrefix(s, "[") {
		*m = NodeMap{}
		return nil
	}
	mm := map[string]Node{}
	if err := json.Unmarshal(b, &mm); err != nil {
		return err
	}
	*m = mm
	return nil
}

// An empty map is written as [] — exactly what TLC prints for <<>> — so that
// ndJsonDeserialize gives back the uniform record of spec/Values.tla.
func (m NodeMap) MarshalJSON() ([]byte, error) {
	if len(m) == 0 {
		return []byte("[]"), nil
	}
	return json.Marshal(map[string]Node(m))
}

func (n Node) MarshalJSON() ([]byte, error) {
	type raw struct {
		T  string  `json:"t"`
		I  int     `json:"i"`
		S  string  `json:"s"`
		Xs []Node  `json:"xs"`
		M  NodeMap `json:"m"`
	}
	xs := n.Xs
	if xs == nil {
		xs = []Node{}
	}
	m := n.M
	if m == nil {
		m = NodeMap{}
	}
	return json.Marshal(raw{n.T, n.I, n.S, xs, m})
}

const kwMark = "ʞ"

var (
	nilN = Node{T: "nil"}
)

func keyOfNode(n Node) string {
	if n.T == "kw" {
		return kwMark + n.S
	}
	return n.S
}

// ToMal builds the Go value the interpreter works on.  No cursors: this is
// the "AST built from Go without source positions" route.
func ToMal(n Node) types.MalType {
	switch n.T {
	case "nil":
		return nil
	case "bool":
		return n.I != 0
	case "int":
		if n.S != "" { // an integer of 10..18 digits, carried as text by the specification
			x, err := strconv.Atoi(n.S)
			if err != nil {
				panic("ToMal: bad big integer " + n.S)
			}
			return x
		}
		return n.I
	case "str":
		return n.S
	case "kw":
		return kwMark + n.S
	case "sym":
		return types.Symbol{Val: n.S}
	case "list":
		// sequences built from Go carry SPARE CAPACITY (as slices grown with append do): an operation that
		// appends in place to a value it was given shows up as a change of that value
		xs := make([]types.MalType, len(n.Xs), len(n.Xs)+2)
		for i, x := range n.Xs {
			xs[i] = ToMal(x)
		}
		return types.List{Val: xs}
	case "vec":
		xs := make([]types.MalType, len(n.Xs), len(n.Xs)+2)
		for i, x := range n.Xs {
			xs[i] = ToMal(x)
		}
		return types.Vector{Val: xs}
	case "map":
		m := map[string]types.MalType{}
		for k, v := range n.M {
			m[k] = ToMal(v)
		}
		return types.HashMap{Val: m}
	case "set":
		m := map[string]struct{}{}
		for k := range n.M {
			m[k] = struct{}{}
		}
		return types.Set{Val: m}
	}
	panic(fmt.Sprintf("ToMal: cannot build %q", n.T))
}

// errClass is set by the environment builder to recognise harness sentinels.
var errClass = func(err error) string { return "" }

// FromMal abstracts a Go value into a Node (closures, builtins, atoms, errors by kind).
func FromMal(v types.MalType) Node { return fromMal(v, 0) }

func fromMal(v types.MalType, depth int) Node {
	if depth > 200 {
		return Node{T: "other", S: "too-deep"}
	}
	switch x := v.(type) {
	case nil:
		return nilN
	case bool:
		if x {
			return Node{T: "bool", I: 1}
		}
		return Node{T: "bool", I: 0}
	case int:
		if x >= 1000000000 || x <= -1000000000 {
			return Node{T: "int", S: strconv.Itoa(x)}
		}
		return Node{T: "int", I: x}
	case string:
		if strings.HasPrefix(x, kwMark) {
			return Node{T: "kw", S: x[len(kwMark):]}
		}
		return Node{T: "str", S: x}
	case types.Symbol:
		return Node{T: "sym", S: x.Val}
	case types.List:
		xs := make([]Node, len(x.Val))
		for i, e := range x.Val {
			xs[i] = fromMal(e, depth+1)
		}
		return Node{T: "list", Xs: xs}
	case types.Vector:
		xs := make([]Node, len(x.Val))
		for i, e := range x.Val {
			xs[i] = fromMal(e, depth+1)
		}
		return Node{T: "vec", Xs: xs}
	case types.HashMap:
		m := NodeMap{}
		for k, e := range x.Val {
			m[k] = fromMal(e, depth+1)
		}
		return Node{T: "map", M: m}
	case types.Set:
		m := NodeMap{}
		for k := range x.Val {
			m[k] = nilN
		}
		return Node{T: "set", M: m}
	case types.MalFunc:
		s := ""
		if x.IsMacro {
			s = "macro"
		}
		return Node{T: "fn", S: s}
	case types.Func:
		return Node{T: "bfn"}
	case *concurrent.Atom:
		return Node{T: "atom", Xs: []Node{fromMal(atomPeek(x), depth+1)}}
	case *concurrent.Future:
		return Node{T: "fut"}
	case error:
		return errNode(x)
	}
	return Node{T: "other", S: fmt.Sprintf("%T", v)}
}

func atomPeek(a *concurrent.Atom) types.MalType {
	a.Mutex.RLock()
	defer a.Mutex.RUnlock()
	return a.Val
}

// sentinel classes must match exactly; any other error class only has to be an error
var exactErrClasses = map[string]bool{"raise": true, "boom": true, "user": true}

// EqualNode is the harness's own exact structural comparison (kinds distinguished,
// list /= vector).  It never calls the interpreter's `=`.
//
// a is the EXPECTED (specification) side.  An expected host-error object of a
// non-sentinel class is opaque: the implementation may represent it as a Go
// error or as a message string (a reflect panic inside a builtin surfaces as a
// thrown string), and the properties only speak about its being an error.
func EqualNode(a, b Node) bool {
	if a.T == "err" && !exactErrClasses[a.S] {
		return true
	}
	if a.T != b.T {
		return false
	}
	switch a.T {
	case "nil":
		return true
	case "bool":
		return a.I == b.I
	case "int":
		return a.I == b.I && a.S == b.S
	case "str", "kw", "sym":
		return a.S == b.S
	case "fn":
		return a.S == b.S
	case "err":
		if exactErrClasses[a.S] || exactErrClasses[b.S] {
			if a.S != b.S {
				return false
			}
			if a.S == "user" { // a program-made error: the message is part of the object
				return len(a.Xs) == 1 && len(b.Xs) == 1 && a.Xs[0].S == b.Xs[0].S
			}
			return true
		}
		return true
	case "list", "vec", "atom":
		if len(a.Xs) != len(b.Xs) {
			return false
		}
		for i := range a.Xs {
			if !EqualNode(a.Xs[i], b.Xs[i]) {
				return false
			}
		}
		return true
	case "map":
		if len(a.M) != len(b.M) {
			return false
		}
		for k, v := range a.M {
			w, ok := b.M[k]
			if !ok || !EqualNode(v, w) {
				return false
			}
		}
		return true
	case "set":
		if len(a.M) != len(b.M) {
			return false
		}
		for k := range a.M {
			if _, ok := b.M[k]; !ok {
				return false
			}
		}
		return true
	}
	return true
}

// EqualSeqNode: list ~ vector interchangeable at every level (the relation of `=`).
func StructEqNode(a, b Node) bool {
	seq := func(n Node) bool { return n.T == "list" || n.T == "vec" }
	if seq(a) && seq(b) {
		if len(a.Xs) != len(b.Xs) {
			return false
		}
		for i := range a.Xs {
			if !StructEqNode(a.Xs[i], b.Xs[i]) {
				return false
			}
		}
		return true
	}
	if a.T != b.T {
		return false
	}
	if a.T == "map" {
		if len(a.M) != len(b.M) {
			return false
		}
		for k, v := range a.M {
			w, ok := b.M[k]
			if !ok || !StructEqNode(v, w) {
				return false
			}
		}
		return true
	}
	return EqualNode(a, b)
}

// canonical text of a node (sorted keys) — used for distinct counting and multiset compare
func Canon(n Node) string {
	var sb strings.Builder
	canon(&sb, n)
	return sb.String()
}

func canon(sb *strings.Builder, n Node) {
	switch n.T {
	case "nil":
		sb.WriteString("nil")
	case "bool", "int":
		if n.S != "" {
			fmt.Fprintf(sb, "%s:%s", n.T, n.S)
		} else {
			fmt.Fprintf(sb, "%s:%d", n.T, n.I)
		}
	case "str", "kw", "sym", "fn", "err", "other":
		fmt.Fprintf(sb, "%s:%q", n.T, n.S)
	case "list", "vec", "atom":
		sb.WriteString(n.T + "(")
		for _, x := range n.Xs {
			canon(sb, x)
			sb.WriteString(" ")
		}
		sb.WriteString(")")
	case "map", "set":
		keys := make([]string, 0, len(n.M))
		for k := range n.M {
			keys = append(keys, k)
		}
		sort.Strings(keys)
		sb.WriteString(n.T + "{")
		for _, k := range keys {
			fmt.Fprintf(sb, "%q=", k)
			if n.T == "map" {
				canon(sb, n.M[k])
			}
			sb.WriteString(" ")
		}
		sb.WriteString("}")
	default:
		sb.WriteString(n.T)
	}
}

// same elements, any order (for results whose order is unspecified)
func EqualAsMultiset(a, b Node) bool {
	if a.T != b.T || len(a.Xs) != len(b.Xs) {
		return false
	}
	ca := make([]string, len(a.Xs))
	cb := make([]string, len(b.Xs))
	for i := range a.Xs {
		ca[i] = Canon(a.Xs[i])
		cb[i] = Canon(b.Xs[i])
	}
	sort.Strings(ca)
	sort.Strings(cb)
	for i := range ca {
		if ca[i] != cb[i] {
			return false
		}
	}
	return true
}
