package main

import (
	"bufio"
	"encoding/json"
	"flag"
	"fmt"
	"math/rand"
	"os"
	"sync"
	"time"
)

func init() {
	commands["progs"] = cmdProgs
}

// Random TYPED programs (direction B for C01 / C03 / C12): depth up to ~8, effects through trace!
// in every position, closures, recursion with a numeric guard, & rest parameters, let shadowing,
// try / catch / finally / throw, quasiquote, user macros, cond / and / or / -> , atoms.

type pgen struct {
	r     *rand.Rand
	depth int
}

func sym(s string) Node   { return Node{T: "sym", S: s} }
func num(i int) Node      { return Node{T: "int", I: i} }
func kw(s string) Node    { return Node{T: "kw", S: s} }
func lst(xs ...Node) Node { return Node{T: "list", Xs: xs} }
func vec(xs ...Node) Node { return Node{T: "vec", Xs: xs} }

var intVars = []string{"a", "b", "n"}

func (g *pgen) pick(xs ...func() Node) Node { return xs[g.r.Intn(len(xs))]() }

// an expression of integer type
func (g *pgen) intE(d int, vars []string) Node {
	if d <= 0 || g.r.Intn(12) == 0 {
		if len(vars) > 0 && g.r.Intn(2) == 0 {
			return sym(vars[g.r.Intn(len(vars))])
		}
		return num(g.r.Intn(7) - 1)
	}
	return g.pick(
		func() Node { return lst(sym("+"), g.intE(d-1, vars), g.intE(d-1, vars)) },
		func() Node { return lst(sym("-"), g.intE(d-1, vars), num(g.r.Intn(3))) },
		func() Node { return lst(sym("trace!"), g.intE(d-1, vars)) },
		func() Node { return lst(sym("if"), g.boolE(d-1, vars), g.intE(d-1, vars), g.intE(d-1, vars)) },
		func() Node {
			v := intVars[g.r.Intn(len(intVars))]
			return lst(sym("let"), vec(sym(v), g.intE(d-1, vars)), g.anyE(d-2, append(vars, v)), g.intE(d-1, append(vars, v)))
		},
		func() Node { return lst(sym("do"), g.anyE(d-2, vars), g.intE(d-1, vars)) },
		func() Node {
			return lst(lst(sym("fn"), vec(sym("a"), sym("b")), g.intE(d-1, append(vars, "a", "b"))), g.intE(d-1, vars), g.intE(d-1, vars))
		},
		func() Node { return lst(sym("count"), g.listE(d-1, vars)) },
		func() Node { return lst(sym("sum-to"), lst(sym("-"), num(g.r.Intn(5)), num(1)), g.intE(d-2, vars)) },
		func() Node { return lst(sym("twice"), sym("inc"), g.intE(d-1, vars)) },
		func() Node { return lst(sym("first"), lst(sym("cons"), g.intE(d-1, vars), g.listE(d-2, vars))) },
		func() Node {
			return lst(sym("try"), g.throwy(d-1, vars), lst(sym("catch"), sym("e"), lst(sym("trace!"), kw("caught")), g.intE(d-2, vars)),
				lst(sym("finally"), lst(sym("trace!"), kw("fin"))))
		},
		func() Node {
			return lst(sym("cond"), g.boolE(d-1, vars), g.intE(d-1, vars), kw("else"), g.intE(d-1, vars))
		},
		func() Node { return lst(sym("->"), g.intE(d-1, vars), sym("inc"), lst(sym("+"), g.intE(d-2, vars))) },
		func() Node { return lst(sym("swap!"), sym("cell"), sym("+"), g.intE(d-1, vars)) },
		func() Node { return lst(sym("unless"), g.boolE(d-1, vars), g.intE(d-1, vars), g.intE(d-1, vars)) },
		func() Node {
			return lst(sym("apply"), sym("+"), lst(sym("list"), g.intE(d-1, vars), g.intE(d-1, vars)))
		},
	)
}

func (g *pgen) boolE(d int, vars []string) Node {
	if d <= 0 || g.r.Intn(5) == 0 {
		return []Node{{T: "bool", I: 1}, {T: "bool", I: 0}, {T: "nil"}, num(0), {T: "str", S: ""}, lst()}[g.r.Intn(6)]
	}
	return g.pick(
		func() Node { return lst(sym("<"), g.intE(d-1, vars), g.intE(d-1, vars)) },
		func() Node { return lst(sym("="), g.anyE(d-1, vars), g.anyE(d-1, vars)) },
		func() Node { return lst(sym("and"), g.boolE(d-1, vars), g.boolE(d-1, vars)) },
		func() Node { return lst(sym("or"), g.boolE(d-1, vars), lst(sym("trace!"), g.boolE(d-1, vars))) },
		func() Node { return lst(sym("not"), g.boolE(d-1, vars)) },
		func() Node { return lst(sym("empty?"), g.listE(d-1, vars)) },
	)
}

func (g *pgen) listE(d int, vars []string) Node {
	if d <= 0 || g.r.Intn(5) == 0 {
		return []Node{lst(sym("list")), lst(sym("list"), num(1), num(2)), vec(num(3), num(4), num(5)), lst(sym("quote"), lst(sym("x"), kw("k")))}[g.r.Intn(4)]
	}
	return g.pick(
		func() Node { return lst(sym("list"), g.intE(d-1, vars), g.anyE(d-1, vars)) },
		func() Node { return lst(sym("cons"), g.anyE(d-1, vars), g.listE(d-1, vars)) },
		func() Node { return lst(sym("rest"), g.listE(d-1, vars)) },
		func() Node {
			return lst(sym("map"), lst(sym("fn"), vec(sym("a")), g.intE(d-2, append(vars, "a"))), vec(num(1), num(2)))
		},
		func() Node { return lst(sym("concat"), g.listE(d-1, vars), g.listE(d-1, vars)) },
		func() Node {
			return lst(sym("quasiquote"), lst(sym("p"), lst(sym("unquote"), g.intE(d-1, vars)), lst(sym("splice-unquote"), g.listE(d-1, vars)), vec(sym("q"), lst(sym("unquote"), g.anyE(d-2, vars)))))
		},
		func() Node { return lst(sym("rest-of"), g.intE(d-1, vars), g.intE(d-1, vars), g.intE(d-2, vars)) },
		func() Node { return vec(g.intE(d-1, vars), g.anyE(d-1, vars)) },
		func() Node { return lst(sym("if"), g.boolE(d-1, vars), g.listE(d-1, vars), g.listE(d-1, vars)) },
	)
}

func (g *pgen) throwy(d int, vars []string) Node {
	return g.pick(
		func() Node { return lst(sym("throw"), g.anyE(d-1, vars)) },
		func() Node { return g.intE(d, vars) },
		func() Node { return lst(sym("nth"), g.listE(d-1, vars), num(7)) },
		func() Node { return lst(sym("deep-throw"), num(g.r.Intn(3)), g.anyE(d-1, vars)) },
		func() Node {
			return lst(sym("do"), lst(sym("trace!"), kw("before")), lst(sym("undefined-function"), num(1)))
		},
		func() Node { return lst(sym("raise!")) },
	)
}

func (g *pgen) anyE(d int, vars []string) Node {
	switch g.r.Intn(5) {
	case 0:
		return g.boolE(d, vars)
	case 1:
		return g.listE(d, vars)
	case 2:
		return []Node{kw("k"), {T: "str", S: "s"}, {T: "nil"}, lst(sym("quote"), sym("sy"))}[g.r.Intn(4)]
	}
	return g.intE(d, vars)
}

// ---- mode "coll": random compositions of the collection builtins (C13), as nested calls
func (g *pgen) collE(d int) Node {
	q := func(n Node) Node { return lst(sym("quote"), n) }
	leaf := func() Node {
		return []Node{vec(num(1), num(2), num(3)), q(lst(num(4), num(5))), {T: "map", M: NodeMap{"ʞa": num(1), "b": num(2)}}, vec(),
			q(lst()), {T: "nil"}, {T: "set", M: NodeMap{"ʞa": nilN, "s": nilN}}, vec(vec(num(1)), vec(num(2), num(3))),
			{T: "map", M: NodeMap{"ʞa": {T: "map", M: NodeMap{"ʞb": num(7)}}}}}[g.r.Intn(9)]
	}
	if d <= 0 {
		return leaf()
	}
	key := func() Node { return []Node{kw("a"), kw("b"), {T: "str", S: "b"}, kw("z")}[g.r.Intn(4)] }
	small := func() Node { return num(g.r.Intn(5) - 1) }
	return g.pick(
		leaf,
		func() Node { return lst(sym("conj"), g.collE(d-1), small()) },
		func() Node { return lst(sym("cons"), small(), g.collE(d-1)) },
		func() Node { return lst(sym("concat"), g.collE(d-1), g.collE(d-1)) },
		func() Node { return lst(sym("rest"), g.collE(d-1)) },
		func() Node { return lst(sym("vec"), g.collE(d-1)) },
		func() Node { return lst(sym("seq"), g.collE(d-1)) },
		func() Node { return lst(sym("take"), small(), g.collE(d-1)) },
		func() Node { return lst(sym("drop"), small(), g.collE(d-1)) },
		func() Node { return lst(sym("take-last"), small(), g.collE(d-1)) },
		func() Node { return lst(sym("drop-last"), small(), g.collE(d-1)) },
		func() Node { return lst(sym("subvec"), g.collE(d-1), small(), small()) },
		func() Node { return lst(sym("assoc"), g.collE(d-1), key(), small()) },
		func() Node { return lst(sym("assoc"), g.collE(d-1), small(), small()) },
		func() Node { return lst(sym("dissoc"), g.collE(d-1), key()) },
		func() Node { return lst(sym("merge"), g.collE(d-1), g.collE(d-1)) },
		func() Node { return lst(sym("get"), g.collE(d-1), key()) },
		func() Node { return lst(sym("nth"), g.collE(d-1), small()) },
		func() Node { return lst(sym("first"), g.collE(d-1)) },
		func() Node { return lst(sym("count"), g.collE(d-1)) },
		func() Node { return lst(sym("list"), g.collE(d-1), g.collE(d-1)) },
		func() Node { return lst(sym("map"), sym("inc"), lst(sym("range"), small(), small())) },
		func() Node { return lst(sym("apply"), sym("list"), g.collE(d-1)) },
		func() Node { return lst(sym("get-in"), g.collE(d-1), vec(key(), key())) },
		func() Node { return lst(sym("assoc-in"), g.collE(d-1), vec(key(), key()), small()) },
		func() Node { return lst(sym("update"), g.collE(d-1), key(), sym("identity")) },
		func() Node { return lst(sym("contains?"), g.collE(d-1), key()) },
		func() Node { return lst(sym("empty?"), g.collE(d-1)) },
		func() Node { return lst(sym("set"), g.collE(d-1)) },
		func() Node {
			return lst(sym("rename-keys"), g.collE(d-1), Node{T: "map", M: NodeMap{"ʞa": kw("b"), "ʞb": kw("a")}})
		},
		func() Node { return lst(sym("="), g.collE(d-1), g.collE(d-1)) },
	)
}

// ---- mode "hist": a long history of collection-producing operations with fan-out (C02); after
// every step EVERY earlier name is traced, so that a changed value shows in the effect log
func (g *pgen) history(n int) []Node {
	forms := []Node{lst(sym("def"), sym("h0"), vec(num(1), num(2), num(3))), lst(sym("def"), sym("h1"), lst(sym("list"), num(1), num(2))),
		lst(sym("def"), sym("h2"), Node{T: "map", M: NodeMap{"ʞa": num(1)}})}
	kinds := []string{"seq", "seq", "map"} // approximate kind of every name, to keep most steps in the builtins' domain
	pickK := func(k string) Node {
		var idx []int
		for i, kk := range kinds {
			if kk == k {
				idx = append(idx, i)
			}
		}
		if len(idx) == 0 || g.r.Intn(12) == 0 { // now and then a wrong kind: the step must fail cleanly
			return sym(fmt.Sprintf("h%d", g.r.Intn(len(kinds))))
		}
		return sym(fmt.Sprintf("h%d", idx[g.r.Intn(len(idx))]))
	}
	for i := 0; i < n; i++ {
		var e Node
		kind := "seq"
		switch g.r.Intn(17) {
		case 0:
			e = lst(sym("conj"), pickK("seq"), num(10+i))
		case 1:
			e = lst(sym("concat"), pickK("seq"), pickK("seq"))
		case 2:
			e = lst(sym("subvec"), lst(sym("vec"), pickK("seq")), num(0), num(1))
		case 3:
			e = lst(sym("rest"), pickK("seq"))
		case 4:
			e = lst(sym("vec"), pickK("seq"))
		case 5:
			e = lst(sym("cons"), num(20+i), pickK("seq"))
		case 6:
			e = lst(sym("take"), num(2), pickK("seq"))
		case 7:
			e = lst(sym("drop"), num(1), pickK("seq"))
		case 8:
			e, kind = lst(sym("assoc"), pickK("map"), kw("k"), num(i)), "map"
		case 9:
			e, kind = lst(sym("dissoc"), pickK("map"), kw("a")), "map"
		case 10:
			e, kind = lst(sym("merge"), pickK("map"), pickK("map")), "map"
		case 11:
			e = lst(sym("quasiquote"), lst(lst(sym("splice-unquote"), pickK("seq")), num(30+i)))
		case 12:
			k := []string{"seq", "map"}[g.r.Intn(2)]
			e, kind = lst(sym("with-meta"), pickK(k), Node{T: "map", M: NodeMap{"ʞm": num(1)}}), k
		case 13:
			e = lst(sym("apply"), sym("list"), pickK("seq"))
		case 14:
			e = lst(sym("map"), sym("identity"), pickK("seq"))
		case 15:
			e, kind = lst(sym("conj"), pickK("map"), kw("c"), pickK("seq")), "map"
		default:
			e, kind = lst(sym("assoc-in"), pickK("map"), vec(kw("p"), kw("q")), num(i)), "map"
		}
		name := fmt.Sprintf("h%d", len(kinds))
		// a failing step (wrong kind) binds a marker
		forms = append(forms, lst(sym("def"), sym(name), lst(sym("try"), e, lst(sym("catch"), sym("err"), kw("failed")))))
		kinds = append(kinds, kind)
		all := []Node{sym("list")}
		for k := range kinds {
			all = append(all, sym(fmt.Sprintf("h%d", k)))
		}
		forms = append(forms, lst(sym("trace!"), Node{T: "list", Xs: all}))
	}
	return forms
}

var progPrelude = []string{
	"(def sum-to (fn [n acc] (if (< n 1) acc (sum-to (- n 1) (+ acc n)))))",
	"(def twice (fn [f x] (f (f x))))",
	"(def rest-of (fn [a & more] (trace! a) more))",
	"(def deep-throw (fn [n v] (if (< n 1) (throw v) (deep-throw (- n 1) v))))",
	"(defmacro unless (fn [c x y] `(if ~c ~y ~x)))",
	"(def cell (atom 0))",
}

func cmdProgs(args []string) {
	fs := flag.NewFlagSet("progs", flag.ExitOnError)
	n := fs.Int("n", 1000, "number of programs")
	seed := fs.Int64("seed", 1, "seed")
	depth := fs.Int("depth", 6, "maximal expression depth")
	out := fs.String("out", "progs.ndjson", "trace file")
	mode := fs.String("mode", "prog", "prog | coll | hist")
	fs.Parse(args)
	g := &pgen{r: rand.New(rand.NewSource(*seed))}
	ns, _, err := NewLoadedEnv()
	if err != nil {
		fmt.Fprintln(os.Stderr, err)
		os.Exit(2)
	}
	// the prelude, read by the real reader, as position-less Nodes
	var pre []Node
	for _, src := range progPrelude {
		ast, rerr := lispRead(src, ns)
		if rerr != nil {
			fmt.Fprintln(os.Stderr, rerr)
			os.Exit(2)
		}
		pre = append(pre, FromMal(ast))
	}
	type rec struct {
		Forms []Node `json:"forms"`
		Obs   Obs    `json:"obs"`
	}
	progs := make([][]Node, *n)
	for i := range progs {
		d := 2 + g.r.Intn(*depth-1)
		nforms := 1 + g.r.Intn(2)
		forms := append([]Node{}, pre...)
		switch *mode {
		case "coll":
			progs[i] = append(forms, lst(sym("trace!"), g.collE(d)))
			continue
		case "hist":
			progs[i] = append(forms, g.history(4+g.r.Intn(*depth*4))...)
			continue
		}
		for k := 0; k < nforms; k++ {
			if g.r.Intn(4) == 0 {
				forms = append(forms, g.throwy(d, nil)) // may fail, uncaught, at top level
			} else {
				forms = append(forms, lst(sym("trace!"), g.anyE(d, nil)))
			}
		}
		progs[i] = forms
	}
	recs := make([]rec, *n)
	var wg sync.WaitGroup
	sem := make(chan struct{}, 16)
	for i := range progs {
		wg.Add(1)
		sem <- struct{}{}
		go func(i int) {
			defer wg.Done()
			defer func() { <-sem }()
			recs[i] = rec{Forms: progs[i], Obs: runProgram(progs[i], nil, 30*time.Second)}
		}(i)
	}
	wg.Wait()
	f, ferr := os.Create(*out)
	if ferr != nil {
		fmt.Fprintln(os.Stderr, ferr)
		os.Exit(2)
	}
	w := bufio.NewWriter(f)
	enc := json.NewEncoder(w)
	enc.SetEscapeHTML(false)
	for _, r := range recs {
		if r.Obs.V.T == "" {
			r.Obs.V = nilN
		}
		if r.Obs.Eff == nil {
			r.Obs.Eff = []Node{}
		}
		r.Obs.G = nil
		r.Obs.Depth = nil
		enc.Encode(r)
	}
	w.Flush()
	f.Close()
	fmt.Fprintf(protoOut, "{\"programs\":%d}\n", *n)
}
