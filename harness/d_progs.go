package main

import (
	"bufio"
	"encoding/json"
	"flag"
	"fmt"
	"math/rand"
	"os"
	"sync"
	"time"
)

func init() {
	commands["progs"] = cmdProgs
}

// Random TYPED programs (direction B for C01 / C03 / C12): depth up to ~8, effects through trace!
// in every position, closures, recursion with a numeric guard, & rest parameters, let shadowing,
// try / catch / finally / throw, quasiquote, user macros, cond / and / or / -> , atoms.

type pgen struct {
	r     *rand.Rand
	depth int
}

func sym(s string) Node   { return Node{T: "sym", S: s} }
func num(i int) Node      { return Node{T: "int", I: i} }
func kw(s string) Node    { return Node{T: "kw", S: s} }
func lst(xs ...Node) Node { return Node{T: "list", Xs: xs} }
func vec(xs ...Node) Node { return Node{T: "vec", Xs: xs} }

var intVars = []string{"a", "b", "n"}

func (g *pgen) pick(xs ...func() Node) Node { return xs[g.r.Intn(len(xs))]() }

// an expression of integer type
func (g *pgen) intE(d int, vars []string) Node {
	if d <= 0 || g.r.Intn(12) == 0 {
		if len(vars) > 0 && g.r.Intn(2) == 0 {
			return sym(vars[g.r.Intn(len(vars))])
		}
		return num(g.r.Intn(7) - 1)
	}
	return g.pick(
		func() Node { return lst(sym("+"), g.intE(d-1, vars), g.intE(d-1, vars)) },
		func() Node { return lst(sym("-"), g.intE(d-1, vars), num(g.r.Intn(3))) },
		func() Node { return lst(sym("trace!"), g.intE(d-1, vars)) },
		func() Node { return lst(sym("if"), g.boolE(d-1, vars), g.intE(d-1, vars), g.intE(d-1, vars)) },
		func() Node {
			v := intVars[g.r.Intn(len(intVars))]
			return lst(sym("let"), vec(sym(v), g.intE(d-1, vars)), g.anyE(d-2, append(vars, v)), g.intE(d-1, append(vars, v)))
		},
		func() Node { return lst(sym("do"), g.anyE(d-2, vars), g.intE(d-1, vars)) },
		func() Node { return lst(lst(sym("fn"), vec(sym("a"), sym("b")), g.intE(d-1, append(vars, "a", "b"))), g.intE(d-1, vars), g.intE(d-1, vars)) },
		func() Node { return lst(sym("count"), g.listE(d-1, vars)) },
		func() Node { return lst(sym("sum-to"), lst(sym("-"), num(g.r.Intn(5)), num(1)), g.intE(d-2, vars)) },
		func() Node { return lst(sym("twice"), sym("inc"), g.intE(d-1, vars)) },
		func() Node { return lst(sym("first"), lst(sym("cons"), g.intE(d-1, vars), g.listE(d-2, vars))) },
		func() Node {
			return lst(sym("try"), g.throwy(d-1, vars), lst(sym("catch"), sym("e"), lst(sym("trace!"), kw("caught")), g.intE(d-2, vars)),
				lst(sym("finally"), lst(sym("trace!"), kw("fin"))))
		},
		func() Node { return lst(sym("cond"), g.boolE(d-1, vars), g.intE(d-1, vars), kw("else"), g.intE(d-1, vars)) },
		func() Node { return lst(sym("->"), g.intE(d-1, vars), sym("inc"), lst(sym("+"), g.intE(d-2, vars))) },
		func() Node { return lst(sym("swap!"), sym("cell"), sym("+"), g.intE(d-1, vars)) },
		func() Node { return lst(sym("unless"), g.boolE(d-1, vars), g.intE(d-1, vars), g.intE(d-1, vars)) },
		func() Node { return lst(sym("apply"), sym("+"), lst(sym("list"), g.intE(d-1, vars), g.intE(d-1, vars))) },
	)
}

func (g *pgen) boolE(d int, vars []string) Node {
	if d <= 0 || g.r.Intn(5) == 0 {
		return []Node{{T: "bool", I: 1}, {T: "bool", I: 0}, {T: "nil"}, num(0), {T: "str", S: ""}, lst()}[g.r.Intn(6)]
	}
	return g.pick(
		func() Node { return lst(sym("<"), g.intE(d-1, vars), g.intE(d-1, vars)) },
		func() Node { return lst(sym("="), g.anyE(d-1, vars), g.anyE(d-1, vars)) },
		func() Node { return lst(sym("and"), g.boolE(d-1, vars), g.boolE(d-1, vars)) },
		func() Node { return lst(sym("or"), g.boolE(d-1, vars), lst(sym("trace!"), g.boolE(d-1, vars))) },
		func() Node { return lst(sym("not"), g.boolE(d-1, vars)) },
		func() Node { return lst(sym("empty?"), g.listE(d-1, vars)) },
	)
}

func (g *pgen) listE(d int, vars []string) Node {
	if d <= 0 || g.r.Intn(5) == 0 {
		return []Node{lst(sym("list")), lst(sym("list"), num(1), num(2)), vec(num(3), num(4), num(5)), lst(sym("quote"), lst(sym("x"), kw("k")))}[g.r.Intn(4)]
	}
	return g.pick(
		func() Node { return lst(sym("list"), g.intE(d-1, vars), g.anyE(d-1, vars)) },
		func() Node { return lst(sym("cons"), g.anyE(d-1, vars), g.listE(d-1, vars)) },
		func() Node { return lst(sym("rest"), g.listE(d-1, vars)) },
		func() Node { return lst(sym("map"), lst(sym("fn"), vec(sym("a")), g.intE(d-2, append(vars, "a"))), vec(num(1), num(2))) },
		func() Node { return lst(sym("concat"), g.listE(d-1, vars), g.listE(d-1, vars)) },
		func() Node {
			return lst(sym("quasiquote"), lst(sym("p"), lst(sym("unquote"), g.intE(d-1, vars)), lst(sym("splice-unquote"), g.listE(d-1, vars)), vec(sym("q"), lst(sym("unquote"), g.anyE(d-2, vars)))))
		},
		func() Node { return lst(sym("rest-of"), g.intE(d-1, vars), g.intE(d-1, vars), g.intE(d-2, vars)) },
		func() Node { return vec(g.intE(d-1, vars), g.anyE(d-1, vars)) },
		func() Node { return lst(sym("if"), g.boolE(d-1, vars), g.listE(d-1, vars), g.listE(d-1, vars)) },
	)
}

func (g *pgen) throwy(d int, vars []string) Node {
	return g.pick(
		func() Node { return lst(sym("throw"), g.anyE(d-1, vars)) },
		func() Node { return g.intE(d, vars) },
		func() Node { return lst(sym("nth"), g.listE(d-1, vars), num(7)) },
		func() Node { return lst(sym("deep-throw"), num(g.r.Intn(3)), g.anyE(d-1, vars)) },
		func() Node { return lst(sym("do"), lst(sym("trace!"), kw("before")), lst(sym("undefined-function"), num(1))) },
		func() Node { return lst(sym("raise!")) },
	)
}

func (g *pgen) anyE(d int, vars []string) Node {
	switch g.r.Intn(5) {
	case 0:
		return g.boolE(d, vars)
	case 1:
		return g.listE(d, vars)
	case 2:
		return []Node{kw("k"), {T: "str", S: "s"}, {T: "nil"}, lst(sym("quote"), sym("sy"))}[g.r.Intn(4)]
	}
	return g.intE(d, vars)
}

var progPrelude = []string{
	"(def sum-to (fn [n acc] (if (< n 1) acc (sum-to (- n 1) (+ acc n)))))",
	"(def twice (fn [f x] (f (f x))))",
	"(def rest-of (fn [a & more] (trace! a) more))",
	"(def deep-throw (fn [n v] (if (< n 1) (throw v) (deep-throw (- n 1) v))))",
	"(defmacro unless (fn [c x y] `(if ~c ~y ~x)))",
	"(def cell (atom 0))",
}

func cmdProgs(args []string) {
	fs := flag.NewFlagSet("progs", flag.ExitOnError)
	n := fs.Int("n", 1000, "number of programs")
	seed := fs.Int64("seed", 1, "seed")
	depth := fs.Int("depth", 6, "maximal expression depth")
	out := fs.String("out", "progs.ndjson", "trace file")
	fs.Parse(args)
	g := &pgen{r: rand.New(rand.NewSource(*seed))}
	ns, _, err := NewLoadedEnv()
	if err != nil {
		fmt.Fprintln(os.Stderr, err)
		os.Exit(2)
	}
	// the prelude, read by the real reader, as position-less Nodes
	var pre []Node
	for _, src := range progPrelude {
		ast, rerr := lispRead(src, ns)
		if rerr != nil {
			fmt.Fprintln(os.Stderr, rerr)
			os.Exit(2)
		}
		pre = append(pre, FromMal(ast))
	}
	type rec struct {
		Forms []Node `json:"forms"`
		Obs   Obs    `json:"obs"`
	}
	progs := make([][]Node, *n)
	for i := range progs {
		d := 2 + g.r.Intn(*depth-1)
		nforms := 1 + g.r.Intn(2)
		forms := append([]Node{}, pre...)
		for k := 0; k < nforms; k++ {
			if g.r.Intn(4) == 0 {
				forms = append(forms, g.throwy(d, nil)) // may fail, uncaught, at top level
			} else {
				forms = append(forms, lst(sym("trace!"), g.anyE(d, nil)))
			}
		}
		progs[i] = forms
	}
	recs := make([]rec, *n)
	var wg sync.WaitGroup
	sem := make(chan struct{}, 16)
	for i := range progs {
		wg.Add(1)
		sem <- struct{}{}
		go func(i int) {
			defer wg.Done()
			defer func() { <-sem }()
			recs[i] = rec{Forms: progs[i], Obs: runProgram(progs[i], nil, 30*time.Second)}
		}(i)
	}
	wg.Wait()
	f, ferr := os.Create(*out)
	if ferr != nil {
		fmt.Fprintln(os.Stderr, ferr)
		os.Exit(2)
	}
	w := bufio.NewWriter(f)
	enc := json.NewEncoder(w)
	enc.SetEscapeHTML(false)
	for _, r := range recs {
		if r.Obs.V.T == "" {
			r.Obs.V = nilN
		}
		if r.Obs.Eff == nil {
			r.Obs.Eff = []Node{}
		}
		r.Obs.G = nil
		r.Obs.Depth = nil
		enc.Encode(r)
	}
	w.Flush()
	f.Close()
	fmt.Fprintf(protoOut, "{\"programs\":%d}\n", *n)
}
