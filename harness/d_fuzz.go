package main

import (
	"context"
	"encoding/json"
	"flag"
	"fmt"
	"math/rand"
	"strings"
	"time"
	"unicode/utf8"

	"github.com/jig/lisp"
	"github.com/jig/lisp/types"
)

func init() {
	commands["fuzzread"] = cmdFuzzRead
	commands["fuzzvalue"] = cmdFuzzValue
}

// fuzzread: arbitrary BYTE strings (valid or invalid UTF-8, NUL, any mix of delimiters) through every
// read route: a totality monitor (the specification only contributes "returns a value or an error").
func cmdFuzzRead(args []string) {
	fs := flag.NewFlagSet("fuzzread", flag.ExitOnError)
	n := fs.Int("n", 20000, "number of random texts")
	seed := fs.Int64("seed", 1, "seed")
	fs.Parse(args)
	rnd := rand.New(rand.NewSource(*seed))
	ns, _, err := NewLoadedEnv()
	if err != nil {
		panic(err)
	}
	frags := []string{"(", ")", "[", "]", "{", "}", "#{", "'", "`", "~", "~@", "^", "@", "\"", "¬", "\\", ";", ":", "$", "«", "»", "a", "1", "-",
		" ", "\n", "\r\n", "\t", "\x00", "\xff", "\xc3", "ʞ", "é", "0x", "1e", "1.5", "_", ";; $A 1\n", ";; $MODULE m\n", "$A", "nil", "\\\"", "\\n"}
	bad := 0
	for i := 0; i < *n; i++ {
		var sb strings.Builder
		k := 1 + rnd.Intn(24)
		for j := 0; j < k; j++ {
			if rnd.Intn(5) == 0 {
				sb.WriteByte(byte(rnd.Intn(256)))
			} else {
				sb.WriteString(frags[rnd.Intn(len(frags))])
			}
		}
		text := sb.String()
		for _, api := range readAPIs {
			o := readVia(api, text, ns)
			if o.K == "panic" || o.K == "hang" {
				bad++
				emitJSON(map[string]interface{}{"kind": o.K, "api": api, "site": o.Site, "msg": o.Msg, "text": text,
					"valid_utf8": utf8.ValidString(text)})
				break
			}
		}
		if bad >= 20 {
			break
		}
	}
	fmt.Fprintf(protoOut, "{\"texts\":%d,\"bad\":%d}\n", *n, bad)
}

func emitJSON(v interface{}) {
	b, _ := json.Marshal(v)
	fmt.Fprintf(protoOut, "%s\n", b)
}

func randString(rnd *rand.Rand) string {
	pool := []rune("a\"\\n\n\t¬ʞ{} ;:$()[]'`~@^#«»é世\u0000\u0001\u007f\u00a0\u200b\ufeff\U0001F600x1-")
	k := rnd.Intn(9)
	var sb strings.Builder
	for i := 0; i < k; i++ {
		if rnd.Intn(8) == 0 {
			sb.WriteRune(rune(rnd.Intn(0x2FFF) + 1))
		} else {
			sb.WriteRune(pool[rnd.Intn(len(pool))])
		}
	}
	// a string whose FIRST rune is U+029E is a keyword in this implementation (known finding, checked
	// by the exhaustive part): the monitor generates data strings only
	out := strings.TrimLeft(sb.String(), kwMark)
	if rnd.Intn(10) == 0 {
		return `{"` + out + `}`
	}
	return out
}

func randValue(rnd *rand.Rand, d int) types.MalType {
	if d <= 0 || rnd.Intn(3) == 0 {
		switch rnd.Intn(6) {
		case 0:
			return nil
		case 1:
			return rnd.Intn(2) == 0
		case 2:
			return rnd.Intn(2000000) - 1000000
		case 3:
			return types.NewKeyword([]string{"a", "a-b", "k1", "+", "->"}[rnd.Intn(5)])
		case 4:
			return types.Symbol{Val: []string{"a", "a-b", "x1", "+", "->", "*v*", "nil?"}[rnd.Intn(7)]}
		}
		return randString(rnd)
	}
	n := rnd.Intn(4)
	switch rnd.Intn(4) {
	case 0:
		xs := make([]types.MalType, n)
		for i := range xs {
			xs[i] = randValue(rnd, d-1)
		}
		return types.List{Val: xs}
	case 1:
		xs := make([]types.MalType, n)
		for i := range xs {
			xs[i] = randValue(rnd, d-1)
		}
		return types.Vector{Val: xs}
	case 2:
		m := map[string]types.MalType{}
		for i := 0; i < n; i++ {
			m[randString(rnd)] = randValue(rnd, d-1)
		}
		return types.HashMap{Val: m}
	}
	m := map[string]struct{}{}
	for i := 0; i < n; i++ {
		m[randString(rnd)] = struct{}{}
	}
	return types.Set{Val: m}
}

// fuzzvalue: random data values (arbitrary valid Unicode strings, depth up to 6): PRINT then READ must
// give back the value.  Strings beginning with U+029E are reported with their own feature class.
func cmdFuzzValue(args []string) {
	fs := flag.NewFlagSet("fuzzvalue", flag.ExitOnError)
	n := fs.Int("n", 20000, "number of random values")
	seed := fs.Int64("seed", 1, "seed")
	fs.Parse(args)
	rnd := rand.New(rand.NewSource(*seed))
	ns, _, err := NewLoadedEnv()
	if err != nil {
		panic(err)
	}
	seen := map[string]bool{}
	bad := 0
	for i := 0; i < *n; i++ {
		v := randValue(rnd, 1+rnd.Intn(5))
		want := FromMal(v)
		var back types.MalType
		var rerr error
		var printed string
		kind, site, msg := guarded(10*time.Second, func() {
			printed = lisp.PRINT(v)
			back, rerr = lisp.READ(printed, nil, ns)
		})
		_ = context.Background
		key := ""
		switch {
		case kind != "":
			key = kind + ":" + site + ":" + msg
		case rerr != nil && strings.Contains(rerr.Error(), "<empty line>"):
			continue
		case rerr != nil || !EqualNode(want, FromMal(back)):
			key = "roundtrip:" + mainFeature(allStrKinds(want), "") + ":" + strKind(want)
		}
		if key != "" && !seen[key] {
			seen[key] = true
			bad++
			emitJSON(map[string]interface{}{"key": key, "value": Canon(want), "printed": printed, "err": fmt.Sprint(rerr)})
		}
	}
	fmt.Fprintf(protoOut, "{\"values\":%d,\"bad\":%d}\n", *n, bad)
}
