package main

import (
	"context"
	"fmt"
	"os"
	"path/filepath"
	"time"

	"github.com/jig/lisp"
	"github.com/jig/lisp/lnotation"
	"github.com/jig/lisp/types"
)

func init() {
	kinds["routes"] = runRoutes
}

type routesCase struct {
	TopTexts []string `json:"toptexts"`
}

func isDataNode(n Node) bool {
	switch n.T {
	case "nil", "bool", "int", "str", "kw", "sym", "set":
		return true
	case "list", "vec":
		for _, x := range n.Xs {
			if !isDataNode(x) {
				return false
			}
		}
		return true
	case "map":
		for _, x := range n.M {
			if !isDataNode(x) {
				return false
			}
		}
		return true
	}
	return false
}

// runRoutes delivers one program through every route and compares each with the definition layer.
func runRoutes(c *Case) Verdict {
	al := c.Allow
	v := Verdict{Class: al.K}
	if al.K == "div" {
		v.Verdict = "skip"
		return v
	}
	var ref *Obs
	refRoute := ""
	var globals []string
	for g := range al.G {
		globals = append(globals, g)
	}
	pre := contexts[c.Ctx]
	routes := []string{"read-module", "read-nil", "ast", "lnotation", "reprint", "repl", "do", "load-file"}
	for _, route := range routes {
		ns, probe, err := NewLoadedEnv()
		if err != nil {
			return Verdict{Verdict: "infra", Note: err.Error()}
		}
		ctx := context.Background()
		var res types.MalType
		var eerr error
		valueKnown := true
		kind, site, msg := guarded(20*time.Second, func() {
			for _, f := range pre {
				if _, e := lisp.EVAL(ctx, ToMal(f), ns); e != nil {
					eerr = fmt.Errorf("context failed: %w", e)
					return
				}
			}
			switch route {
			case "read-module", "read-nil", "reprint":
				for _, t := range c.TopTexts {
					var cur *types.Position
					if route == "read-module" {
						cur = types.NewCursorFile("routes-module")
					}
					ast, rerr := lisp.READ(t, cur, ns)
					if rerr != nil {
						eerr = fmt.Errorf("READ failed on %q: %w", t, rerr)
						return
					}
					if route == "reprint" {
						ast, rerr = lisp.READ(lisp.PRINT(ast), nil, ns)
						if rerr != nil {
							eerr = fmt.Errorf("re-READ of printed form failed: %w", rerr)
							return
						}
					}
					res, eerr = lisp.EVAL(ctx, ast, ns)
					if eerr != nil {
						return
					}
				}
			case "ast":
				for _, f := range c.Forms {
					res, eerr = lisp.EVAL(ctx, ToMal(f), ns)
					if eerr != nil {
						return
					}
				}
			case "lnotation":
				// the same AST built with the project's own L-notation helpers (lnotation.L, LS, V, HM, SET, S)
				for _, f := range c.Forms {
					res, eerr = lisp.EVAL(ctx, toMalL(f), ns)
					if eerr != nil {
						return
					}
				}
			case "repl":
				for _, t := range c.TopTexts {
					var out types.MalType
					out, eerr = lisp.REPL(ctx, ns, t, types.NewCursorFile("REPL"))
					if eerr != nil {
						return
					}
					// the REPL hands back the PRINTED value; read it back when it is data
					valueKnown = false
					if isDataNode(al.V) {
						if back, rerr := lisp.READ(out.(string), nil, ns); rerr == nil {
							res = back
							valueKnown = true
						}
					}
				}
			case "do":
				ast, rerr := lisp.READ("(do "+c.Text+"\n)", types.NewCursorFile("routes-do"), ns)
				if rerr != nil {
					eerr = fmt.Errorf("READ of (do ...) failed: %w", rerr)
					return
				}
				res, eerr = lisp.EVAL(ctx, ast, ns)
			case "load-file":
				dir, derr := os.MkdirTemp("", "verif-routes-")
				if derr != nil {
					eerr = derr
					return
				}
				defer os.RemoveAll(dir)
				path := filepath.Join(dir, "prog.lisp")
				if werr := os.WriteFile(path, []byte(c.Text), 0o644); werr != nil {
					eerr = werr
					return
				}
				form := types.List{Val: []types.MalType{types.Symbol{Val: "load-file"}, path}}
				_, eerr = lisp.EVAL(ctx, form, ns)
				valueKnown = false
			}
		})
		obs := Obs{Eff: probe.effects()}
		if kind != "" {
			v.Verdict = kind
			v.Key = fmt.Sprintf("route:%s:%s:%s", route, kind, site)
			v.Note = msg
			v.Obs = obs
			return v
		}
		if eerr != nil {
			obs.K, obs.V = classifyErr(eerr)
			obs.Msg = eerr.Error()
		} else {
			obs.K, obs.V = "val", FromMal(res)
		}
		obs.G = map[string]Node{}
		for _, g := range globals {
			val, gerr := ns.Get(types.Symbol{Val: g})
			if gerr != nil {
				obs.G[g] = Node{T: "unbound"}
			} else {
				obs.G[g] = FromMal(val)
			}
		}
		if al.K != "unspec" {
			cc := *c
			alc := *al
			if !valueKnown && alc.K == "val" && obs.K == "val" {
				alc.V = obs.V // value not observable through this route
			}
			cc.Allow = &alc
			jv := judgeProg(&cc, obs)
			if jv.Verdict != "ok" {
				jv.Key = fmt.Sprintf("route:%s:%s:%s", route, c.Tag, jv.Note)
				jv.Note = fmt.Sprintf("route %s, layout %s: %s (%s)", route, c.Tag, jv.Note, obs.Msg)
				return jv
			}
		}
		// whatever the definition says, all routes must agree with each other
		if ref == nil {
			o := obs
			ref, refRoute = &o, route
		} else {
			diff := ""
			switch {
			case ref.K != obs.K:
				diff = "kind"
			case valueKnown && (ref.K == "val" || ref.K == "thr") && !(EqualNode(ref.V, obs.V) && EqualNode(obs.V, ref.V)):
				diff = "value"
			case !effEqual(ref.Eff, obs.Eff) || !effEqual(obs.Eff, ref.Eff):
				diff = "effects"
			}
			for g, want := range ref.G {
				if got, ok := obs.G[g]; !ok || !EqualNode(want, got) || !EqualNode(got, want) {
					diff = "global:" + g
				}
			}
			if diff != "" {
				v.Verdict = "mismatch"
				v.Key = fmt.Sprintf("routes-differ:%s-vs-%s:%s:%s", refRoute, route, c.Tag, diff)
				v.Note = fmt.Sprintf("layout %s: route %s gives %s %s, route %s gives %s %s (%s)", c.Tag, refRoute, ref.K, Canon(ref.V),
					route, obs.K, Canon(obs.V), diff)
				v.Obs = obs
				return v
			}
		}
	}
	if al.K == "unspec" {
		v.Verdict = "ok"
		v.Class = "routes-only"
		return v
	}
	v.Verdict = "ok"
	return v
}

// toMalL builds the AST of a form with the L-notation helpers of github.com/jig/lisp/lnotation.
func toMalL(n Node) types.MalType {
	switch n.T {
	case "sym":
		return lnotation.S(n.S)
	case "list":
		if len(n.Xs) > 0 && n.Xs[0].T == "sym" {
			args := make([]types.MalType, 0, len(n.Xs)-1)
			for _, x := range n.Xs[1:] {
				args = append(args, toMalL(x))
			}
			return lnotation.LS(n.Xs[0].S, args...)
		}
		args := make([]types.MalType, 0, len(n.Xs))
		for _, x := range n.Xs {
			args = append(args, toMalL(x))
		}
		return lnotation.L(args...)
	case "vec":
		args := make([]types.MalType, 0, len(n.Xs))
		for _, x := range n.Xs {
			args = append(args, toMalL(x))
		}
		return lnotation.V(args)
	case "map":
		m := map[string]interface{}{}
		for k, x := range n.M {
			m[k] = toMalL(x)
		}
		return lnotation.HM(m)
	case "set":
		var ks []string
		for k := range n.M {
			ks = append(ks, k)
		}
		return lnotation.SET(ks)
	}
	return ToMal(n)
}
