package main

import (
	"fmt"
	"runtime"
	"runtime/debug"
	"strings"
	"time"
)

// guarded runs f under recover and a watchdog.  Returns ("", "") on normal
// return, ("panic", site) or ("hang", "") otherwise.  A hung goroutine is leaked.
func guarded(timeout time.Duration, f func()) (kind string, site string, msg string) {
	done := make(chan [3]string, 1)
	go func() {
		defer func() {
			if r := recover(); r != nil {
				done <- [3]string{"panic", panicSite(debug.Stack()), fmt.Sprint(r)}
			}
		}()
		f()
		done <- [3]string{"", "", ""}
	}()
	select {
	case r := <-done:
		return r[0], r[1], r[2]
	case <-time.After(timeout):
		return "hang", hangSite(), ""
	}
}

// innermost /repo frame below the panic: "file.go:func"
func panicSite(stack []byte) string {
	lines := strings.Split(string(stack), "\n")
	seenPanic := false
	for i := 0; i+1 < len(lines); i++ {
		l := lines[i]
		if strings.HasPrefix(l, "panic(") {
			seenPanic = true
			continue
		}
		if !seenPanic {
			continue
		}
		if strings.HasPrefix(l, "github.com/jig/lisp") {
			fn := l
			if k := strings.Index(fn, "("); k > 0 {
				fn = fn[:k]
			}
			fn = strings.TrimPrefix(fn, "github.com/jig/lisp")
			fn = strings.TrimPrefix(fn, "/")
			// strip closure numbering and generic noise
			if k := strings.Index(fn, ".func"); k > 0 {
				fn = fn[:k]
			}
			return fn
		}
	}
	return "unknown"
}

func hangSite() string {
	buf := make([]byte, 1<<20)
	n := runtime.Stack(buf, true)
	s := string(buf[:n])
	for _, reason := range []string{"sync.RWMutex.RLock", "sync.RWMutex.Lock", "sync.Mutex.Lock", "chan receive", "select"} {
		if strings.Contains(s, reason) {
			return reason
		}
	}
	return "running"
}
