package main

import (
	"context"
	"fmt"
	"os"
	"sort"
	"strings"
	"time"

	"github.com/jig/lisp"
	"github.com/jig/lisp/types"
)

func init() {
	kinds["ast"] = runAst
	kinds["astfuture"] = runAstFuture
	commands["list-builtins"] = cmdListBuiltins
}

// runAst: C04.  The AST is evaluated bare and wrapped in (try AST (catch e :caught)).
// Violation: a Go panic reaches the harness, a hang, or the wrapper returns an error.
func runAst(c *Case) Verdict {
	v := Verdict{Class: c.Allow.K}
	ast := ToMal(c.Forms[0])
	head := c.Tag
	_ = head
	for _, mode := range []string{"bare", "wrapped"} {
		ns, _, err := NewLoadedEnv()
		if err != nil {
			return Verdict{Verdict: "infra", Note: err.Error()}
		}
		form := ast
		if mode == "wrapped" {
			form = types.List{Val: []types.MalType{types.Symbol{Val: "try"}, ast,
				types.List{Val: []types.MalType{types.Symbol{Val: "catch"}, types.Symbol{Val: "caught-error"}, kwMark + "caught"}}}}
		}
		var eerr error
		ctx, cancel := context.WithTimeout(context.Background(), 10*time.Second)
		kind, site, msg := guarded(20*time.Second, func() { _, eerr = lisp.EVAL(ctx, form, ns) })
		cancel()
		if kind != "" {
			v.Verdict = kind
			v.Key = fmt.Sprintf("%s:%s:%s", kind, site, msgClass(msg))
			v.Note = fmt.Sprintf("%s (%s): %s", mode, c.Src, msg)
			v.Obs = Obs{K: kind, Site: site, Msg: msg}
			return v
		}
		if mode == "wrapped" && eerr != nil {
			v.Verdict = "mismatch"
			v.Key = fmt.Sprintf("uncatchable:%s", headOf(head))
			v.Note = fmt.Sprintf("(try %s (catch e :caught)) returned an error: %v", c.Src, eerr)
			return v
		}
	}
	v.Verdict = "ok"
	return v
}

// msgClass reduces a panic message to its class, so that one defect has one key.
func msgClass(msg string) string {
	for _, c := range []string{"index out of range", "slice bounds out of range", "interface conversion", "nil pointer dereference",
		"nil map", "GetPosition", "reflect"} {
		if strings.Contains(msg, c) {
			return strings.ReplaceAll(c, " ", "-")
		}
	}
	if len(msg) > 40 {
		msg = msg[:40]
	}
	return msg
}

func headOf(tag string) string {
	if i := strings.IndexAny(tag, " "); i > 0 {
		return tag[:i]
	}
	return tag
}

// runAstFuture: a (possibly malformed) form as a future body must not take the process down.
// A crash is detected by the runner (this process dies); here only the normal path.
func runAstFuture(c *Case) Verdict {
	v := Verdict{Class: "future"}
	ns, _, err := NewLoadedEnv()
	if err != nil {
		return Verdict{Verdict: "infra", Note: err.Error()}
	}
	ast := ToMal(c.Forms[0])
	form := types.List{Val: []types.MalType{types.Symbol{Val: "try"},
		types.List{Val: []types.MalType{types.Symbol{Val: "deref"},
			types.List{Val: []types.MalType{types.Symbol{Val: "future"}, ast}}}},
		types.List{Val: []types.MalType{types.Symbol{Val: "catch"}, types.Symbol{Val: "caught-error"}, kwMark + "caught"}}}}
	fmt.Fprintf(os.Stderr, "ASTFUTURE-BEGIN %s\n", c.ID)
	ctx, cancel := context.WithTimeout(context.Background(), 5*time.Second)
	defer cancel()
	var eerr error
	kind, site, msg := guarded(20*time.Second, func() { _, eerr = lisp.EVAL(ctx, form, ns) })
	fmt.Fprintf(os.Stderr, "ASTFUTURE-END %s\n", c.ID)
	if kind != "" {
		v.Verdict = kind
		v.Key = fmt.Sprintf("%s:%s:future", kind, site)
		v.Note = msg
		return v
	}
	if eerr != nil {
		v.Verdict = "mismatch"
		v.Key = "uncatchable:future"
		v.Note = eerr.Error()
		return v
	}
	v.Verdict = "ok"
	return v
}

// list-builtins prints the names bound to Go functions in a loaded environment (NDJSON).
func cmdListBuiltins(args []string) {
	ns, _, err := NewLoadedEnv()
	if err != nil {
		fmt.Fprintln(os.Stderr, err)
		os.Exit(2)
	}
	var names []string
	for _, r := range ns.Symbols(nil, "") {
		name := string(r)
		v, gerr := ns.Get(types.Symbol{Val: name})
		if gerr != nil {
			continue
		}
		switch v.(type) {
		case types.Func, types.MalFunc:
			names = append(names, name)
		}
	}
	sort.Strings(names)
	excluded := map[string]bool{"readline": true, "trace!": true, "depth!": true, "cancel!": true}
	for _, n := range names {
		if excluded[n] {
			continue
		}
		fmt.Fprintf(protoOut, "{\"name\":%q}\n", n)
	}
}
