// Package dotted lives under the dotted module path verif.local/harness: the reflective
// binder derives names from the registering function's package path.
package dotted

import (
	"github.com/jig/lisp/lib/call"
	"github.com/jig/lisp/types"
)

// Register binds fn through the named entry point.
func Register(ns types.EnvType, entry string, override string, fn interface{}, bounds ...int) {
	if entry == "override" {
		call.CallOverrideFN(ns, override, fn, bounds...)
	} else {
		call.Call(ns, fn, bounds...)
	}
}
