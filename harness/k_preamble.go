package main

import (
	"fmt"
	"strings"
	"time"

	"github.com/jig/lisp"
	"github.com/jig/lisp/reader"
	"github.com/jig/lisp/types"
)

func init() {
	kinds["preamble"] = runPreamble
}

type preambleCase struct {
	PM NodeMap `json:"m"`
}

// valueFeature names what in the assigned values could interfere with the line-oriented transport.
func valueFeature(m NodeMap) string {
	feat := map[string]bool{}
	var walk func(n Node)
	walk = func(n Node) {
		switch n.T {
		case "str":
			if strings.Contains(n.S, "\n") {
				if strings.HasPrefix(n.S, `{"`) && strings.HasSuffix(n.S, "}") {
					feat["multiline-raw-string"] = true
				} else {
					feat["newline"] = true
				}
			}
		case "sym":
			if strings.HasPrefix(n.S, "$") {
				feat["placeholder-named-symbol"] = true
			}
		}
		for _, x := range n.Xs {
			walk(x)
		}
		for _, x := range n.M {
			walk(x)
		}
	}
	for _, v := range m {
		walk(v)
	}
	// a placeholder-named symbol dominates: the open finding (values are transported by printing, so such a
	// symbol is read back as a placeholder) decides the outcome of the whole case whatever else it contains
	for _, f := range []string{"placeholder-named-symbol", "multiline-raw-string", "newline"} {
		if feat[f] {
			return f
		}
	}
	return "plain"
}

// runPreamble: READWithPreamble(AddPreamble(src, m)) must equal Read_str(src, m) and the
// substitution computed by the specification.
func runPreamble(c *Case) Verdict {
	ns := envPool.Get().(types.EnvType)
	defer envPool.Put(ns)
	v := Verdict{Class: c.Cls}
	goMap := map[string]types.MalType{}
	hm := &types.HashMap{Val: map[string]types.MalType{}}
	for k, n := range c.PM {
		goMap[k] = ToMal(n)
		hm.Val[k] = ToMal(n)
	}
	var transported, direct types.MalType
	var terr, derr error
	var text string
	kind, site, msg := guarded(10*time.Second, func() {
		text, _ = lisp.AddPreamble(c.Src, goMap)
		transported, terr = lisp.READWithPreamble(text, nil, ns)
		direct, derr = reader.Read_str(c.Src, nil, hm, ns)
	})
	feat := valueFeature(c.PM)
	v.Obs = map[string]interface{}{"text": text, "feature": feat, "danger": c.Danger}
	if kind != "" {
		v.Verdict = kind
		v.Key = fmt.Sprintf("%s:%s:%s", kind, site, feat)
		v.Note = msg
		return v
	}
	bad := func(what, detail string) Verdict {
		v.Verdict = "mismatch"
		v.Key = fmt.Sprintf("transport:%s:%s", feat, what)
		v.Note = fmt.Sprintf("%s: source %q with %s: %s", what, c.Src, Canon(Node{T: "map", M: c.PM}), detail)
		return v
	}
	switch c.Cls {
	case "ok":
		want := *c.V
		if derr != nil || !EqualNode(want, FromMal(direct)) {
			return bad("direct-read", fmt.Sprintf("Read_str(src, m) = %v / %v, substitution says %s", Canon(FromMal(direct)), derr, Canon(want)))
		}
		if terr != nil || !EqualNode(want, FromMal(transported)) {
			return bad("preamble-read", fmt.Sprintf("READWithPreamble(AddPreamble) = %s / %v, substitution says %s; text %q",
				Canon(FromMal(transported)), terr, Canon(want), text))
		}
	case "unspec":
		v.Verdict = "abstain"
		return v
	default:
		// the source itself does not read: both routes must reject it
		if derr == nil || terr == nil {
			return bad("accepted-bad-source", fmt.Sprintf("direct err=%v transported err=%v", derr, terr))
		}
	}
	v.Verdict = "ok"
	return v
}
