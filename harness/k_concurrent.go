package main

import (
	"bufio"
	"context"
	"encoding/json"
	"fmt"
	"os"
	"sync"
	"time"

	"github.com/jig/lisp"
	"github.com/jig/lisp/env"
	"github.com/jig/lisp/types"
)

func init() {
	kinds["concurrent"] = runConcurrent
}

type concurrentCase struct {
	Progs  [][]Node `json:"progs"`
	Allows []Allow  `json:"allows"`
	Texts  []string `json:"texts"`
	Shared string   `json:"shared"` // definitions evaluated (from text) before the concurrent phase
}

var (
	envTracePath string
	concRepeat   = 3
	envTraceOnce sync.Once
	envTraceW    *bufio.Writer
	envTraceMu   sync.Mutex
)

// EnvEvent: one operation on a scope, logged by the hook under that scope's lock.
type EnvEvent struct {
	Ev    string `json:"ev"` // begin | op
	G     int    `json:"g"`  // evaluation (thread) number
	Op    string `json:"op"`
	Scope int    `json:"scope"`
	Key   string `json:"key"`
	Pre   int    `json:"pre"` // 1: the scope existed before the concurrent phase
}

type envRecorder struct {
	mu      sync.Mutex
	ids     map[*env.Env]int
	pre     map[*env.Env]bool
	loading bool
	threads map[int64]int
	events  []EnvEvent
	limit   int
}

func (r *envRecorder) hook(op string, scope *env.Env, key string) {
	r.mu.Lock()
	defer r.mu.Unlock()
	if r.loading {
		r.pre[scope] = true
		return
	}
	g, ok := r.threads[goid()]
	if !ok || len(r.events) >= r.limit {
		return
	}
	id, ok := r.ids[scope]
	if !ok {
		id = len(r.ids) + 1
		r.ids[scope] = id
	}
	pre := 0
	if r.pre[scope] {
		pre = 1
	}
	r.events = append(r.events, EnvEvent{Ev: "op", G: g, Op: op, Scope: id, Key: key, Pre: pre})
}

// runConcurrent: the programs of the set run at the same time on ONE environment; each must
// give exactly its solo outcome (as defined by the specification).
func runConcurrent(c *Case) Verdict {
	v := Verdict{Class: "set"}
	for rep := 0; rep < concRepeat; rep++ {
		var rec *envRecorder
		if envTracePath != "" {
			rec = &envRecorder{ids: map[*env.Env]int{}, pre: map[*env.Env]bool{}, loading: true, threads: map[int64]int{}, limit: 4000}
		}
		// The hook runs under the scope's lock, before the change.  A write of the shared macro's name holds that lock a
		// little longer: readers queue up behind it and read right after it; a definition published in two writes
		// then shows its intermediate state to them (a single write shows nothing).
		recHook := rec
		env.VerifEnvOp = func(op string, scope *env.Env, key string) {
			if op == "set" && key == "smac" {
				time.Sleep(30 * time.Microsecond)
			}
			if recHook != nil {
				recHook.hook(op, scope, key)
			}
		}
		ns, probe, err := NewLoadedEnv()
		if err != nil {
			return Verdict{Verdict: "infra", Note: err.Error()}
		}
		if c.Shared != "" {
			// read under a module name: the forms of the shared definitions carry positions
			ast, rerr := lisp.READ("(do "+c.Shared+"\n)", types.NewCursorFile("shared"), ns)
			if rerr != nil {
				return Verdict{Verdict: "infra", Note: "shared definitions: " + rerr.Error()}
			}
			// (the shared definitions start a future themselves: they run under the watchdog too)
			var eerr error
			kind, site, msg := guarded(20*time.Second, func() { _, eerr = lisp.EVAL(context.Background(), ast, ns) })
			if kind != "" {
				env.VerifEnvOp = nil
				v.Verdict = kind
				v.Key = kind + ":shared-definitions:" + site
				v.Note = "evaluating the shared definitions (they start a future and wait for it): " + kind + " " + msg
				return v
			}
			if eerr != nil {
				return Verdict{Verdict: "infra", Note: "shared definitions: " + eerr.Error()}
			}
		}
		probe.mu.Lock()
		probe.EffBy = map[int64][]Node{}
		probe.Eff = nil
		probe.mu.Unlock()
		if rec != nil {
			rec.mu.Lock()
			rec.loading = false
			rec.mu.Unlock()
		}
		n := len(c.Progs)
		obs := make([]Obs, n)
		gids := make([]int64, n)
		var wg sync.WaitGroup
		start := make(chan struct{})
		for t := 0; t < n; t++ {
			wg.Add(1)
			go func(t int) {
				defer wg.Done()
				gids[t] = goid()
				if rec != nil {
					rec.mu.Lock()
					rec.threads[gids[t]] = t + 1
					rec.mu.Unlock()
				}
				asts := make([]types.MalType, len(c.Progs[t]))
				for i, f := range c.Progs[t] {
					asts[i] = ToMal(f)
				}
				<-start
				var res types.MalType
				var eerr error
				func() {
					defer func() {
						if r := recover(); r != nil {
							obs[t].K, obs[t].Msg = "panic", fmt.Sprint(r)
						}
					}()
					res, eerr = evalForms(context.Background(), ns, asts)
				}()
				if obs[t].K == "panic" {
					return
				}
				if eerr != nil {
					obs[t].K, obs[t].V = classifyErr(eerr)
					obs[t].Msg = eerr.Error()
				} else {
					obs[t].K, obs[t].V = "val", FromMal(res)
				}
			}(t)
		}
		close(start)
		done := make(chan struct{})
		go func() { wg.Wait(); close(done) }()
		select {
		case <-done:
		case <-time.After(20 * time.Second):
			v.Verdict = "hang"
			v.Key = "hang:concurrent-evaluations:" + hangSite()
			v.Note = fmt.Sprintf("programs %s did not finish when run together", c.Src)
			env.VerifEnvOp = nil
			return v
		}
		env.VerifEnvOp = nil
		if rec != nil {
			envTraceMu.Lock()
			envTraceOnce.Do(func() {
				f, ferr := os.Create(envTracePath)
				if ferr == nil {
					envTraceW = bufio.NewWriter(f)
				}
			})
			if envTraceW != nil {
				enc := json.NewEncoder(envTraceW)
				enc.Encode(EnvEvent{Ev: "begin"})
				for _, e := range rec.events {
					enc.Encode(e)
				}
				envTraceW.Flush()
			}
			envTraceMu.Unlock()
		}
		for t := 0; t < n; t++ {
			probe.mu.Lock()
			obs[t].Eff = append([]Node{}, probe.EffBy[gids[t]]...)
			probe.mu.Unlock()
			cc := *c
			al := c.Allows[t]
			cc.Allow = &al
			cc.Tag = "concurrent"
			jv := judgeProg(&cc, obs[t])
			if jv.Verdict != "ok" && jv.Verdict != "abstain" && jv.Verdict != "skip" {
				jv.Key = fmt.Sprintf("concurrent:differs-from-solo:%s", jv.Note)
				jv.Note = fmt.Sprintf("program %d of set %s (%s) run together with the others: %s; observed %s %s (%s)",
					t+1, c.Src, c.Texts[t], jv.Note, obs[t].K, Canon(obs[t].V), obs[t].Msg)
				return jv
			}
		}
	}
	v.Verdict = "ok"
	return v
}
