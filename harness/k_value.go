package main

import (
	"context"
	"fmt"
	"time"

	"github.com/jig/lisp"
	"github.com/jig/lisp/types"
)

func init() {
	kinds["value"] = runValue
}

type valueCase struct {
	Printed string `json:"printed"`
}

// runValue: PRINT then READ (and read-string of pr-str inside the interpreter) must give back v.
func runValue(c *Case) Verdict {
	ns := envPool.Get().(types.EnvType)
	defer envPool.Put(ns)
	v := Verdict{Class: c.Tag}
	if c.V == nil {
		return Verdict{Verdict: "infra", Note: "value case without v"}
	}
	want := *c.V
	var printed string
	var back, back2 types.MalType
	var rerr, rerr2 error
	kind, site, msg := guarded(10*time.Second, func() {
		val := ToMal(want)
		// the value is first DISPLAYED (str: the non-readable rendering), as a program showing it to its user
		// would: what PRINT / pr-str produce afterwards must still read back
		dq := types.List{Val: []types.MalType{types.Symbol{Val: "str"},
			types.List{Val: []types.MalType{types.Symbol{Val: "quote"}, val}}}}
		_, _ = lisp.EVAL(context.Background(), dq, ns)
		printed = lisp.PRINT(val)
		back, rerr = lisp.READ(printed, nil, ns)
		q := types.List{Val: []types.MalType{types.Symbol{Val: "read-string"},
			types.List{Val: []types.MalType{types.Symbol{Val: "pr-str"},
				types.List{Val: []types.MalType{types.Symbol{Val: "quote"}, val}}}}}}
		back2, rerr2 = lisp.EVAL(context.Background(), q, ns)
	})
	obs := map[string]interface{}{"printed": printed, "model_printed": c.Printed}
	v.Obs = obs
	if kind != "" {
		v.Verdict = kind
		v.Key = fmt.Sprintf("%s:%s:%s", kind, site, strKind(want))
		v.Note = msg
		return v
	}
	bad := func(route string, err error, got types.MalType) Verdict {
		v.Verdict = "mismatch"
		v.Key = "roundtrip:" + mainFeature(allStrKinds(want), "") + ":" + strKind(want)
		if err != nil {
			v.Note = fmt.Sprintf("%s: %s prints as %q which does not read: %v", route, Canon(want), printed, err)
		} else {
			v.Note = fmt.Sprintf("%s: %s prints as %q which reads as %s", route, Canon(want), printed, Canon(FromMal(got)))
		}
		return v
	}
	if rerr != nil || !EqualNode(want, FromMal(back)) {
		return bad("PRINT/READ", rerr, back)
	}
	if rerr2 != nil || !EqualNode(want, FromMal(back2)) {
		return bad("pr-str/read-string", rerr2, back2)
	}
	v.Verdict = "ok"
	return v
}

// every string feature found anywhere in the value (keys and members included)
func allStrKinds(n Node) string {
	out := strKind(Node{T: "str", S: n.S})
	if n.T != "str" {
		out = ""
	}
	for _, x := range n.Xs {
		out += allStrKinds(x)
	}
	for k, x := range n.M {
		out += strKind(Node{T: "str", S: k}) + allStrKinds(x)
	}
	return out
}
