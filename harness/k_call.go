package main

import (
	"context"
	"fmt"
	"strings"
	"time"

	"github.com/jig/lisp"
	"github.com/jig/lisp/types"
)

func init() {
	kinds["call"] = runCall
}

func quoted(n Node) types.MalType {
	if n.T == "fnref" {
		return types.Symbol{Val: n.S}
	}
	if n.T == "fnform" && len(n.Xs) == 1 {
		return ToMal(n.Xs[0]) // a (fn ...) form, evaluated at the call
	}
	switch n.T {
	case "nil", "bool", "int", "str", "kw":
		return ToMal(n)
	}
	return types.List{Val: []types.MalType{types.Symbol{Val: "quote"}, ToMal(n)}}
}

func argKinds(args []Node) string {
	ks := make([]string, len(args))
	for i, a := range args {
		ks[i] = a.T
		if (a.T == "list" || a.T == "vec") && len(a.Xs) == 0 {
			ks[i] += "0"
		}
	}
	return strings.Join(ks, ",")
}

// runCall evaluates (name 'a1 'a2 ...) in a fresh environment.
func runCall(c *Case) Verdict {
	ns, probe, err := NewLoadedEnv()
	if err != nil {
		return Verdict{Verdict: "infra", Note: err.Error()}
	}
	form := []types.MalType{types.Symbol{Val: c.Name}}
	for _, a := range c.Args {
		form = append(form, quoted(a))
	}
	var res types.MalType
	var eerr error
	kind, site, msg := guarded(20*time.Second, func() {
		res, eerr = lisp.EVAL(context.Background(), types.List{Val: form}, ns)
	})
	obs := Obs{Eff: probe.effects()}
	al := c.Allow
	v := Verdict{Class: al.K}
	sig := fmt.Sprintf("%s(%s)", c.Name, argKinds(c.Args))
	if kind != "" {
		obs.K, obs.Site, obs.Msg = kind, site, msg
		v.Obs = obs
		if al.K == "unspec" {
			v.Verdict = "abstain"
			v.Note = kind + " at " + site
			return v
		}
		v.Verdict = kind
		v.Key = fmt.Sprintf("%s:%s:%s", kind, site, sig)
		return v
	}
	if eerr != nil {
		obs.K, obs.V = classifyErr(eerr)
		obs.Msg = eerr.Error()
	} else {
		obs.K, obs.V = "val", FromMal(res)
	}
	v.Obs = obs
	bad := func(what string) Verdict {
		v.Verdict = "mismatch"
		v.Key = fmt.Sprintf("value:%s:%s->%s:%s", sig, al.K, obs.K, what)
		v.Note = what
		return v
	}
	switch al.K {
	case "unspec":
		v.Verdict = "abstain"
		return v
	case "err":
		if obs.K != "err" && obs.K != "thr" {
			return bad("value-instead-of-error")
		}
	case "thr":
		if obs.K != "thr" || !EqualNode(al.V, obs.V) {
			return bad("thrown")
		}
	case "val":
		if obs.K != "val" {
			return bad("error-instead-of-value")
		}
		if al.Ord != nil && !*al.Ord {
			if !EqualAsMultiset(al.V, obs.V) {
				return bad("value")
			}
		} else if !EqualNode(al.V, obs.V) {
			return bad("value")
		}
	default:
		return Verdict{Verdict: "infra", Note: "unknown allow kind " + al.K}
	}
	v.Verdict = "ok"
	return v
}
