package main

import (
	"context"
	"fmt"
	"os"
	"path/filepath"
	"strconv"
	"strings"
	"time"

	"github.com/jig/lisp"
	"github.com/jig/lisp/types"
)

func init() {
	kinds["pos"] = runPos
}

type posCase struct {
	Fault     string `json:"fault"`
	Module    string `json:"module"`
	TopBegin  int    `json:"top_begin"`
	TopEnd    int    `json:"top_end"`
	FaultLine int    `json:"fault_line"`
}

// splitTopLevel returns the top-level forms of a text with the row each starts on,
// using the real reader only to find where a form ENDS (by reading growing prefixes).
func topLevelForms(text string) []struct {
	Text string
	Row  int
} {
	var out []struct {
		Text string
		Row  int
	}
	lines := strings.SplitAfter(text, "\n")
	i := 0
	for i < len(lines) {
		// skip blank and comment-only lines
		t := strings.TrimSpace(lines[i])
		if t == "" || strings.HasPrefix(t, ";") {
			i++
			continue
		}
		j := i
		acc := ""
		for j < len(lines) {
			acc += lines[j]
			j++
			if _, err := lisp.READ(acc, nil, nil); err == nil {
				break
			}
		}
		out = append(out, struct {
			Text string
			Row  int
		}{acc, i + 1})
		i = j
	}
	return out
}

func runPos(c *Case) Verdict {
	v := Verdict{Class: c.Fault}
	type result struct {
		route string
		err   error
	}
	var results []result
	// module names as the header line / load-file carry them: whatever follows "$MODULE " up to the end of the line
	headerModule := "my project/" + c.Module + " v2.lisp"
	tmpDir, terr := os.MkdirTemp("", "pos mod ")
	if terr != nil {
		return Verdict{Verdict: "infra", Note: terr.Error()}
	}
	defer os.RemoveAll(tmpDir)
	filePath := filepath.Join(tmpDir, c.Module+" file.lisp")
	if werr := os.WriteFile(filePath, []byte(c.Text), 0o644); werr != nil {
		return Verdict{Verdict: "infra", Note: werr.Error()}
	}
	wantModule := map[string]string{"form-by-form": c.Module, "one-do": c.Module, "header": headerModule, "load-file": filePath}
	for _, route := range []string{"form-by-form", "one-do", "header", "load-file"} {
		ns, _, err := NewLoadedEnv()
		if err != nil {
			return Verdict{Verdict: "infra", Note: err.Error()}
		}
		var eerr error
		kind, site, msg := guarded(20*time.Second, func() {
			ctx := context.Background()
			if route == "header" {
				// no cursor module: the reader takes the name from the header line
				ast, rerr := lisp.READ(";; $MODULE "+headerModule+"\n(do "+c.Text+"\n)", nil, ns)
				if rerr != nil {
					eerr = fmt.Errorf("INFRA read: %w", rerr)
					return
				}
				_, eerr = lisp.EVAL(ctx, ast, ns)
				return
			}
			if route == "load-file" {
				ast, rerr := lisp.READ("(load-file "+strconv.Quote(filePath)+")", nil, ns)
				if rerr != nil {
					eerr = fmt.Errorf("INFRA read: %w", rerr)
					return
				}
				_, eerr = lisp.EVAL(ctx, ast, ns)
				return
			}
			if route == "one-do" {
				ast, rerr := lisp.READ("(do "+c.Text+"\n)", types.NewCursorFile(c.Module), ns)
				if rerr != nil {
					eerr = fmt.Errorf("INFRA read: %w", rerr)
					return
				}
				_, eerr = lisp.EVAL(ctx, ast, ns)
				return
			}
			for _, f := range topLevelForms(c.Text) {
				padded := strings.Repeat("\n", f.Row-1) + f.Text
				ast, rerr := lisp.READ(padded, types.NewCursorFile(c.Module), ns)
				if rerr != nil {
					eerr = fmt.Errorf("INFRA read: %w", rerr)
					return
				}
				if _, eerr = lisp.EVAL(ctx, ast, ns); eerr != nil {
					return
				}
			}
		})
		if kind != "" {
			v.Verdict = kind
			v.Key = fmt.Sprintf("%s:%s:%s", kind, site, c.Tag)
			v.Note = msg
			return v
		}
		if eerr != nil && strings.HasPrefix(eerr.Error(), "INFRA read") {
			return Verdict{Verdict: "infra", Note: eerr.Error() + " text: " + c.Text}
		}
		results = append(results, result{route, eerr})
	}
	noPos := 0
	for _, r := range results {
		if r.err == nil {
			v.Verdict = "mismatch"
			v.Key = fmt.Sprintf("pos:%s:%s:no-error", c.Tag, c.Fault)
			v.Note = "planted fault did not fail (" + r.route + ")"
			return v
		}
		pe, ok := r.err.(interface{ Position() *types.Position })
		if !ok || pe.Position() == nil {
			noPos++
			continue
		}
		p := pe.Position()
		bad := ""
		// rows count the lines of the text handed to the reader: in the header route the header is its first line, and
		// load-file builds exactly such a text (";; $MODULE <path>\n(do <file>\nnil)": a file's line n is row n + 1)
		off := 0
		if r.route == "header" || r.route == "load-file" {
			off = 1
		}
		p = &types.Position{Module: p.Module, BeginRow: p.BeginRow - off, BeginCol: p.BeginCol, Row: p.Row - off, Col: p.Col}
		switch {
		case p.Module == nil || *p.Module != wantModule[r.route]:
			bad = "module"
		case p.BeginRow < c.TopBegin:
			bad = "begins-before-top-level-form"
		case p.Row > c.TopEnd:
			bad = "ends-after-top-level-form"
		case p.BeginRow > c.FaultLine || p.Row < c.FaultLine:
			bad = "does-not-cover-fault-line"
		}
		if bad != "" {
			v.Verdict = "mismatch"
			v.Key = fmt.Sprintf("pos:%s:%s", c.Tag, bad)
			mod := "<nil>"
			if p.Module != nil {
				mod = *p.Module
			}
			v.Note = fmt.Sprintf("%s/%s (%s): position %s rows %d..%d; top-level form rows %d..%d, fault on row %d: %s\n%s",
				c.Tag, c.Fault, r.route, mod, p.BeginRow, p.Row, c.TopBegin, c.TopEnd, c.FaultLine, bad, r.err)
			return v
		}
	}
	if noPos == len(results) {
		v.Verdict = "abstain"
		v.Note = "error carries no position"
		return v
	}
	v.Verdict = "ok"
	return v
}
