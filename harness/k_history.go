package main

import (
	"context"
	"fmt"
	"time"

	"github.com/jig/lisp"
	"github.com/jig/lisp/printer"
	"github.com/jig/lisp/types"
)

func init() {
	kinds["history"] = runHistory
}

type historyCase struct {
	Seeds  []string `json:"seeds"`
	Ops    []string `json:"ops"`
	Danger int      `json:"danger"`
}

// runHistory replays (def v0 seed) (def v1 (op ..)) ... for every construction path of the
// seed, once with the steps read from text (realistic slice capacities) and once built as
// position-less ASTs.  After EVERY step every earlier binding is re-read and compared with
// what it was when it was created; the final bindings are compared with the definition layer.
func runHistory(c *Case) Verdict {
	v := Verdict{Class: "history"}
	type capInfo struct{ Len, Cap int }
	caps := map[string]capInfo{}
	for si, seedText := range c.Seeds {
		for _, route := range []string{"text", "ast"} {
			ns, _, err := NewLoadedEnv()
			if err != nil {
				return Verdict{Verdict: "infra", Note: err.Error()}
			}
			var problem *Verdict
			kind, site, msg := guarded(30*time.Second, func() {
				ctx := context.Background()
				seedAst, rerr := lisp.READ("(def v0 "+seedText+")", nil, ns)
				if rerr != nil {
					problem = &Verdict{Verdict: "infra", Note: "seed does not read: " + seedText}
					return
				}
				if _, eerr := lisp.EVAL(ctx, seedAst, ns); eerr != nil {
					problem = &Verdict{Verdict: "infra", Note: "seed fails: " + seedText + ": " + eerr.Error()}
					return
				}
				snaps := []string{}
				producers := []string{"seed:" + seedText}
				read := func(k int) (types.MalType, bool) {
					val, gerr := ns.Get(types.Symbol{Val: fmt.Sprintf("v%d", k)})
					return val, gerr == nil
				}
				v0, _ := read(0)
				snaps = append(snaps, Canon(FromMal(v0)))
				if si < 64 {
					switch s := v0.(type) {
					case types.Vector:
						caps[seedText] = capInfo{len(s.Val), cap(s.Val)}
					case types.List:
						caps[seedText] = capInfo{len(s.Val), cap(s.Val)}
					}
				}
				for i, f := range c.Forms {
					var ast types.MalType
					if route == "text" {
						var rerr error
						ast, rerr = lisp.READ(printer.Pr_str(ToMal(f), true), nil, ns)
						if rerr != nil {
							problem = &Verdict{Verdict: "infra", Note: "step does not read"}
							return
						}
					} else {
						ast = ToMal(f)
					}
					_, eerr := lisp.EVAL(ctx, ast, ns)
					// re-inspect every earlier binding
					for k := 0; k < len(snaps); k++ {
						if snaps[k] == "" {
							continue
						}
						cur, ok := read(k)
						if !ok || Canon(FromMal(cur)) != snaps[k] {
							problem = &Verdict{
								Verdict: "mismatch",
								Key:     fmt.Sprintf("alias:%s->%s:%s", producers[k], c.Ops[i], c.Tag),
								Note: fmt.Sprintf("v%d (made by %s via %s, route %s) changed from %s to %s after step %d %s",
									k, producers[k], seedText, route, snaps[k], Canon(FromMal(cur)), i+1, c.Ops[i]),
							}
							if k == 0 {
								problem.Key = fmt.Sprintf("alias:seed->%s:%s", c.Ops[i], c.Tag)
							}
							return
						}
					}
					if eerr != nil {
						snaps = append(snaps, "")
					} else {
						nv, _ := read(i + 1)
						snaps = append(snaps, Canon(FromMal(nv)))
					}
					producers = append(producers, c.Ops[i])
				}
				// final values against the definition layer
				if c.Allow != nil && c.Allow.K != "unspec" && c.Allow.K != "div" {
					for g, want := range c.Allow.G {
						val, gerr := ns.Get(types.Symbol{Val: g})
						got := Node{T: "unbound"}
						if gerr == nil {
							got = FromMal(val)
						}
						if !EqualNode(want, got) {
							problem = &Verdict{Verdict: "mismatch", Key: fmt.Sprintf("value:%s:%s", c.Tag, g),
								Note: fmt.Sprintf("%s = %s, definition says %s (seed %s)", g, Canon(got), Canon(want), seedText)}
							return
						}
					}
				}
			})
			if kind != "" {
				v.Verdict = kind
				v.Key = fmt.Sprintf("%s:%s:%s", kind, site, c.Tag)
				v.Note = msg
				return v
			}
			if problem != nil {
				problem.Class = "history"
				return *problem
			}
		}
	}
	v.Verdict = "ok"
	v.Obs = map[string]interface{}{"seed_len_cap": caps, "danger": c.Danger}
	return v
}
