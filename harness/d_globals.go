package main

import (
	"bufio"
	"context"
	"encoding/json"
	"flag"
	"fmt"
	"math/rand"
	"os"
	"runtime"
	"strings"
	"sync"
	"time"

	"github.com/jig/lisp"
	"github.com/jig/lisp/types"
)

// globals driver (C11, "every global definition is seen either entirely or not at all"):
// writer goroutines (re)define global names on ONE environment while reader goroutines look
// them up from nested scopes, closures and futures.  Every operation is one lisp.EVAL call;
// its start and its return are logged with a sequence number taken under one mutex, so the
// log order is consistent with real time.  spec/TraceRW.tla decides whether each read
// returned a value a linearizable register could have returned.
func init() {
	commands["globals"] = cmdGlobals
}

type RWEvent struct {
	Seq  int64  `json:"seq"`
	Ev   string `json:"ev"` // begin | wb | we | rb | re
	Tid  int    `json:"tid"`
	Name int    `json:"name"`
	Val  int    `json:"val"` // wb/we: value number k; re: value seen (0 = unbound, -1 = not an entire definition)
	Via  string `json:"via"`
	N    int    `json:"n"`
}

type rwRecorder struct {
	mu     sync.Mutex
	seq    int64
	events []RWEvent
}

func (r *rwRecorder) emit(e RWEvent) {
	r.mu.Lock()
	r.seq++
	e.Seq = r.seq
	r.events = append(r.events, e)
	r.mu.Unlock()
}

var readVias = []string{"plain", "nested", "closure", "future", "macro", "apply"}

func readSrc(via string, name int) string {
	g := fmt.Sprintf("g%d", name)
	var x string
	switch via {
	case "plain":
		x = g
	case "nested":
		x = "((fn [a] (let [b a] (let [c b] " + g + "))) 1)"
	case "closure":
		x = "(let [f (fn [] " + g + ")] (f))"
	case "future":
		x = "@(future " + g + ")"
	case "macro":
		x = "(cond false 1 true " + g + ")"
	case "apply":
		x = "(first (map (fn [i] " + g + ") [1]))"
	case "macrocall":
		// the name is (re)defined as a MACRO that ignores its operand: the operand is evaluated only if the name
		// is, for a moment, bound to something that is not (yet) the macro -- a definition seen in part
		return "(try (" + g + " (throw :torn)) (catch e (if (= e :torn) -1 0)))"
	}
	return "(try " + x + " (catch e 0))"
}

// the k-th definition of a name: a vector whose elements are all k (an "entire" definition
// is one whose elements all agree), built at run time so that every definition is a fresh value
func writeSrc(name, k int, via string) string {
	g := fmt.Sprintf("g%d", name)
	switch via {
	case "defmacro":
		return fmt.Sprintf("(defmacro %s (fn [x] [%d %d %d %d]))", g, k, k, k, k)
	case "literal":
		return fmt.Sprintf("(def %s [%d %d %d %d])", g, k, k, k, k)
	case "computed":
		return fmt.Sprintf("(def %s (vec (map (fn [i] %d) [1 2 3 4])))", g, k)
	default: // inside a do inside a let (def binds in the scope it runs in: the let's) -- so use eval at the root
		return fmt.Sprintf("(do (def %s (conj [%d %d %d] %d)) nil)", g, k, k, k, k)
	}
}

func entire(v types.MalType) int {
	switch x := v.(type) {
	case int:
		if x == 0 {
			return 0
		}
		return -1
	case types.Vector:
		if len(x.Val) != 4 {
			return -1
		}
		k, ok := x.Val[0].(int)
		if !ok {
			return -1
		}
		for _, e := range x.Val {
			if e != k {
				return -1
			}
		}
		return k
	}
	return -1
}

func runRWScenario(rec *rwRecorder, rnd *rand.Rand, names, readers, writesPer, readsPer int) error {
	ns, _, err := NewLoadedEnv()
	if err != nil {
		return err
	}
	ctx, cancel := context.WithTimeout(context.Background(), 60*time.Second)
	defer cancel()
	rec.emit(RWEvent{Ev: "begin", N: names})
	type op struct {
		ast  types.MalType
		name int
		k    int
		via  string
	}
	wvias := []string{"literal", "computed", "do"}
	var wops [][]op
	// some names are macros: always defined with defmacro, always read by calling them
	isMacro := make([]bool, names+1)
	for n := 1; n <= names; n++ {
		isMacro[n] = rnd.Intn(3) == 0
	}
	for n := 1; n <= names; n++ {
		var s []op
		for k := 1; k <= writesPer; k++ {
			via := wvias[rnd.Intn(len(wvias))]
			if isMacro[n] {
				via = "defmacro"
			}
			ast, e := lisp.READ(writeSrc(n, k, via), nil, ns)
			if e != nil {
				return e
			}
			s = append(s, op{ast, n, k, via})
		}
		wops = append(wops, s)
	}
	var rops [][]op
	for r := 0; r < readers; r++ {
		var s []op
		for i := 0; i < readsPer; i++ {
			n := 1 + rnd.Intn(names)
			via := readVias[rnd.Intn(len(readVias))]
			if isMacro[n] {
				via = "macrocall"
			}
			ast, e := lisp.READ(readSrc(via, n), nil, ns)
			if e != nil {
				return e
			}
			s = append(s, op{ast, n, 0, via})
		}
		rops = append(rops, s)
	}
	var wg sync.WaitGroup
	start := make(chan struct{})
	errs := make(chan error, names+readers)
	// A macro name gets its first definition BEFORE the concurrent phase: EVAL looks a call's head up twice (is it a
	// macro? then its value), and a name that goes from unbound to macro between the two is called like a function --
	// each lookup saw "nothing" resp. "the entire definition", which the property allows.  A REdefinition replaces a
	// macro by a macro: every lookup must find a macro.
	first := make([]int, len(wops))
	for w := range wops {
		if o := wops[w][0]; o.via == "defmacro" {
			rec.emit(RWEvent{Ev: "wb", Tid: w + 1, Name: o.name, Val: o.k, Via: o.via})
			if _, e := lisp.EVAL(ctx, o.ast, ns); e != nil {
				return fmt.Errorf("writer: %v", e)
			}
			rec.emit(RWEvent{Ev: "we", Tid: w + 1, Name: o.name, Val: o.k, Via: o.via})
			first[w] = 1
		}
	}
	for w := range wops {
		wg.Add(1)
		go func(w int) {
			defer wg.Done()
			<-start
			for _, o := range wops[w][first[w]:] {
				rec.emit(RWEvent{Ev: "wb", Tid: w + 1, Name: o.name, Val: o.k, Via: o.via})
				if _, e := lisp.EVAL(ctx, o.ast, ns); e != nil {
					errs <- fmt.Errorf("writer: %v", e)
					return
				}
				rec.emit(RWEvent{Ev: "we", Tid: w + 1, Name: o.name, Val: o.k, Via: o.via})
				if rnd.Intn(2) == 0 {
					runtime.Gosched()
				}
			}
		}(w)
	}
	for r := range rops {
		wg.Add(1)
		go func(r int) {
			defer wg.Done()
			<-start
			tid := names + r + 1
			for _, o := range rops[r] {
				rec.emit(RWEvent{Ev: "rb", Tid: tid, Name: o.name, Via: o.via})
				v, e := lisp.EVAL(ctx, o.ast, ns)
				if e != nil {
					errs <- fmt.Errorf("reader (%s): %v", o.via, e)
					return
				}
				rec.emit(RWEvent{Ev: "re", Tid: tid, Name: o.name, Val: entire(v), Via: o.via})
			}
		}(r)
	}
	close(start)
	finished := make(chan struct{})
	go func() { wg.Wait(); close(finished) }()
	select {
	case <-finished:
	case <-time.After(30 * time.Second):
		return fmt.Errorf("HANG: writers and readers of global definitions did not finish (%s)", hangSite())
	}
	select {
	case e := <-errs:
		return e
	default:
	}
	return nil
}

func cmdGlobals(args []string) {
	fs := flag.NewFlagSet("globals", flag.ExitOnError)
	n := fs.Int("n", 50, "number of scenarios")
	seed := fs.Int64("seed", 1, "random seed")
	out := fs.String("out", "globals.ndjson", "trace file")
	fs.Parse(args)
	rnd := rand.New(rand.NewSource(*seed))
	rec := &rwRecorder{}
	f, err := os.Create(*out)
	if err != nil {
		fmt.Fprintln(os.Stderr, err)
		os.Exit(2)
	}
	w := bufio.NewWriter(f)
	enc := json.NewEncoder(w)
	reads := 0
	for i := 0; i < *n; i++ {
		rec.events = rec.events[:0]
		names := 1 + rnd.Intn(2)
		readers := 1 + rnd.Intn(4)
		if err := runRWScenario(rec, rand.New(rand.NewSource(*seed*1000+int64(i))), names, readers, 3+rnd.Intn(10), 4+rnd.Intn(20)); err != nil {
			if strings.HasPrefix(err.Error(), "HANG") {
				b, _ := json.Marshal(map[string]interface{}{"hang": err.Error(), "scenario": i})
				fmt.Fprintf(protoOut, "%s\n", b)
				break // the stuck goroutines stay; nothing more can be judged in this process
			}
			fmt.Fprintln(os.Stderr, "infra:", err)
			os.Exit(2)
		}
		for _, e := range rec.events {
			if e.Ev == "re" {
				reads++
			}
			enc.Encode(e)
		}
	}
	w.Flush()
	f.Close()
	b, _ := json.Marshal(map[string]interface{}{"scenarios": *n, "reads": reads})
	fmt.Fprintf(protoOut, "%s\n", b)
}
