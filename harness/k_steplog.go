package main

import (
	"context"
	"time"

	"github.com/jig/lisp"
	"github.com/jig/lisp/debuggertypes"
	"github.com/jig/lisp/types"
)

func init() {
	kinds["steplog"] = runStepLog
}

type Consult struct {
	A   Node   `json:"a"`
	D   int    `json:"d"`
	O1  int    `json:"o1"`
	O2  int    `json:"o2"`
	Cmd string `json:"cmd"`
}

var cmdNames = map[debuggertypes.Command]string{debuggertypes.NoOp: "noop", debuggertypes.Next: "next", debuggertypes.In: "in", debuggertypes.Out: "out"}

// a deterministic sample of scripts (all of length <= 2, some longer ones)
func stepLogScripts() [][]debuggertypes.Command {
	all := stepperScripts(2)
	N, X, I, O := debuggertypes.NoOp, debuggertypes.Next, debuggertypes.In, debuggertypes.Out
	return append(all, []debuggertypes.Command{N, N, O}, []debuggertypes.Command{I, O, X}, []debuggertypes.Command{N, O, N, N, X},
		[]debuggertypes.Command{O, N, N, I}, []debuggertypes.Command{N, N, N, X, O, I}, []debuggertypes.Command{X, O, O, N})
}

// runStepLog records every consultation of the stepper for every script (process-wide state: -workers 1)
func runStepLog(c *Case) Verdict {
	v := Verdict{Class: "steplog"}
	type rec struct {
		Script []string  `json:"script"`
		Log    []Consult `json:"log"`
	}
	var out []rec
	for _, script := range stepLogScripts() {
		ns, _, err := NewLoadedEnv()
		if err != nil {
			return Verdict{Verdict: "infra", Note: err.Error()}
		}
		ctx := context.Background()
		var log []Consult
		calls := 0
		kind, site, msg := guarded(30*time.Second, func() {
			lisp.Stepper = nil
			lisp.VerifResetStepper()
			for _, f := range contexts[c.Ctx] {
				if _, e := lisp.EVAL(ctx, ToMal(f), ns); e != nil {
					return
				}
			}
			lisp.Stepper = func(ast types.MalType, _ types.EnvType) debuggertypes.Command {
				_, o1, o2 := lisp.VerifStepperFlags()
				cmd := script[calls%len(script)]
				calls++
				n := FromMal(ast)
				stripGensym(&n)
				b := func(x bool) int {
					if x {
						return 1
					}
					return 0
				}
				if len(log) < 3000 {
					log = append(log, Consult{A: n, D: evalFrames() - 0, O1: b(o1), O2: b(o2), Cmd: cmdNames[cmd]})
				}
				return cmd
			}
			defer func() { lisp.Stepper = nil; lisp.VerifResetStepper() }()
			for _, f := range c.Forms {
				if _, e := lisp.EVAL(ctx, ToMal(f), ns); e != nil {
					return
				}
			}
		})
		lisp.Stepper = nil
		lisp.VerifResetStepper()
		if kind != "" {
			v.Verdict = kind
			v.Key = kind + ":" + site + ":steplog"
			v.Note = msg
			return v
		}
		names := make([]string, len(script))
		for i, s := range script {
			names[i] = cmdNames[s]
		}
		out = append(out, rec{Script: names, Log: log})
	}
	v.Verdict = "ok"
	v.Obs = out
	return v
}
