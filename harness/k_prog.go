package main

import (
	"context"
	"fmt"
	"regexp"
	"sort"
	"time"

	"github.com/jig/lisp/types"
)

func init() {
	kinds["prog"] = runProg
}

// runProgram evaluates forms in a fresh, fully loaded environment.
func runProgram(forms []Node, globals []string, timeout time.Duration) Obs {
	var obs Obs
	ns, probe, err := NewLoadedEnv()
	if err != nil {
		return Obs{K: "infra", Msg: err.Error()}
	}
	asts := make([]types.MalType, len(forms))
	for i, f := range forms {
		asts[i] = ToMal(f)
	}
	ctx, cancel := context.WithCancel(context.Background())
	defer cancel()
	probe.Cancel = cancel
	var res types.MalType
	var eerr error
	kind, site, msg := guarded(timeout, func() { res, eerr = evalForms(ctx, ns, asts) })
	obs.Eff = probe.effects()
	switch kind {
	case "panic", "hang":
		obs.K, obs.Site, obs.Msg = kind, site, msg
		return obs
	}
	if eerr != nil {
		obs.K, obs.V = classifyErr(eerr)
		obs.Msg = eerr.Error()
	} else {
		obs.K, obs.V = "val", FromMal(res)
	}
	if len(globals) > 0 {
		obs.G = map[string]Node{}
		for _, g := range globals {
			v, gerr := ns.Get(types.Symbol{Val: g})
			if gerr != nil {
				obs.G[g] = Node{T: "unbound"}
			} else {
				obs.G[g] = FromMal(v)
			}
		}
	}
	return obs
}

func effEqual(a, b []Node) bool {
	if len(a) != len(b) {
		return false
	}
	for i := range a {
		if !EqualNode(a[i], b[i]) {
			return false
		}
	}
	return true
}

var gensymRE = regexp.MustCompile(`^G__[0-9]+$`)

// canonGensyms renames generated symbols G__n by order of first appearance, so that
// expansions are compared up to the state of the (shared) gensym counter.
func canonGensyms(nodes ...*Node) {
	names := map[string]string{}
	var walk func(n *Node)
	walk = func(n *Node) {
		if n.T == "sym" && gensymRE.MatchString(n.S) {
			if _, ok := names[n.S]; !ok {
				names[n.S] = fmt.Sprintf("G__#%d", len(names)+1)
			}
			n.S = names[n.S]
		}
		for i := range n.Xs {
			walk(&n.Xs[i])
		}
		if n.T == "map" {
			keys := make([]string, 0, len(n.M))
			for k := range n.M {
				keys = append(keys, k)
			}
			sort.Strings(keys)
			for _, k := range keys {
				v := n.M[k]
				walk(&v)
				n.M[k] = v
			}
		}
	}
	for _, n := range nodes {
		walk(n)
	}
}

func canonOutcome(v *Node, eff []Node) {
	ptrs := []*Node{}
	for i := range eff {
		ptrs = append(ptrs, &eff[i])
	}
	ptrs = append(ptrs, v)
	canonGensyms(ptrs...)
}

// judgeProg compares an observation with the allowed outcome of the definition layer.
func judgeProg(c *Case, obs Obs) Verdict {
	al := c.Allow
	canonOutcome(&al.V, al.Eff)
	canonOutcome(&obs.V, obs.Eff)
	v := Verdict{Obs: obs, Class: al.K}
	sig := c.Sig
	if sig == "" {
		sig = c.Tag
	}
	if al.K == "div" {
		v.Verdict = "skip"
		return v
	}
	if obs.K == "infra" {
		v.Verdict = "infra"
		return v
	}
	if al.K == "unspec" {
		if obs.K == "panic" || obs.K == "hang" {
			v.Verdict = "abstain"
			v.Note = "oracle abstains; " + obs.K + " at " + obs.Site
			return v
		}
		v.Verdict = "abstain"
		return v
	}
	if obs.K == "panic" || obs.K == "hang" {
		v.Verdict = obs.K
		v.Key = fmt.Sprintf("%s:%s:%s", obs.K, obs.Site, sig)
		return v
	}
	bad := func(what string) Verdict {
		v.Verdict = "mismatch"
		v.Key = fmt.Sprintf("value:%s:%s->%s:%s", sig, al.K, obs.K, what)
		v.Note = what
		return v
	}
	if al.K == "err" && !exactErrClasses[al.V.S] {
		// a host error of an unnamed class: any error will do (the binder turns a
		// reflect panic into a thrown message string)
		if obs.K != "err" && obs.K != "thr" {
			return bad("kind")
		}
	} else if al.K != obs.K {
		return bad("kind")
	}
	if (al.K == "val" || al.K == "thr" || al.K == "err") && !EqualNode(al.V, obs.V) {
		return bad("value")
	}
	if !effEqual(al.Eff, obs.Eff) {
		return bad("effects")
	}
	for g, want := range al.G {
		if got, ok := obs.G[g]; !ok || !EqualNode(want, got) {
			return bad("global:" + g)
		}
	}
	v.Verdict = "ok"
	return v
}

func runProg(c *Case) Verdict {
	var globals []string
	for g := range c.Allow.G {
		globals = append(globals, g)
	}
	forms := c.Forms
	if c.Ctx != "" {
		pre, ok := contexts[c.Ctx]
		if !ok {
			return Verdict{Verdict: "infra", Note: "unknown context " + c.Ctx}
		}
		forms = append(append([]Node{}, pre...), c.Forms...)
	}
	obs := runProgram(forms, globals, 20*time.Second)
	return judgeProg(c, obs)
}
