package main

import (
	"context"
	"fmt"
	"regexp"
	"sort"
	"time"

	"github.com/jig/lisp"
	"github.com/jig/lisp/types"
)

func init() {
	kinds["prog"] = runProg
}

// runProgram evaluates forms in a fresh, fully loaded environment.
func runProgram(forms []Node, globals []string, timeout time.Duration) Obs {
	return runProgramText(forms, "", globals, timeout)
}

// runProgramText: like runProgram; when text is not empty the program is READ from it (so that its
// literals are the reader's own slices) instead of being built from the forms.
func runProgramText(forms []Node, text string, globals []string, timeout time.Duration) Obs {
	var obs Obs
	ns, probe, err := NewLoadedEnv()
	if err != nil {
		return Obs{K: "infra", Msg: err.Error()}
	}
	asts := make([]types.MalType, len(forms))
	for i, f := range forms {
		asts[i] = ToMal(f)
	}
	if text != "" {
		ast, rerr := lisp.READ("(do "+text+"\n)", nil, ns)
		if rerr != nil {
			return Obs{K: "infra", Msg: "READ: " + rerr.Error()}
		}
		asts = []types.MalType{ast}
	}
	ctx, cancel := context.WithCancel(context.Background())
	defer cancel()
	probe.Cancel = cancel
	var res types.MalType
	var eerr error
	kind, site, msg := guarded(timeout, func() { res, eerr = evalForms(ctx, ns, asts) })
	obs.Eff = probe.effects()
	probe.mu.Lock()
	obs.Depth = append([]int{}, probe.Depths...)
	probe.mu.Unlock()
	switch kind {
	case "panic", "hang":
		obs.K, obs.Site, obs.Msg = kind, site, msg
		return obs
	}
	if eerr != nil {
		obs.K, obs.V = classifyErr(eerr)
		obs.Msg = eerr.Error()
	} else {
		obs.K, obs.V = "val", FromMal(res)
	}
	if len(globals) > 0 {
		obs.G = map[string]Node{}
		for _, g := range globals {
			v, gerr := ns.Get(types.Symbol{Val: g})
			if gerr != nil {
				obs.G[g] = Node{T: "unbound"}
			} else {
				obs.G[g] = FromMal(v)
			}
		}
	}
	return obs
}

func effEqual(a, b []Node) bool {
	if len(a) != len(b) {
		return false
	}
	for i := range a {
		if !EqualNode(a[i], b[i]) {
			return false
		}
	}
	return true
}

var gensymRE = regexp.MustCompile(`^G__[0-9]+$`)

// canonGensyms renames generated symbols G__n by order of first appearance, so that
// expansions are compared up to the state of the (shared) gensym counter.
func canonGensyms(nodes ...*Node) {
	names := map[string]string{}
	var walk func(n *Node)
	walk = func(n *Node) {
		if n.T == "sym" && gensymRE.MatchString(n.S) {
			if _, ok := names[n.S]; !ok {
				names[n.S] = fmt.Sprintf("G__#%d", len(names)+1)
			}
			n.S = names[n.S]
		}
		for i := range n.Xs {
			walk(&n.Xs[i])
		}
		if n.T == "map" {
			keys := make([]string, 0, len(n.M))
			for k := range n.M {
				keys = append(keys, k)
			}
			sort.Strings(keys)
			for _, k := range keys {
				v := n.M[k]
				walk(&v)
				n.M[k] = v
			}
		}
	}
	for _, n := range nodes {
		walk(n)
	}
}

func canonOutcome(v *Node, eff []Node) {
	ptrs := []*Node{}
	for i := range eff {
		ptrs = append(ptrs, &eff[i])
	}
	ptrs = append(ptrs, v)
	canonGensyms(ptrs...)
}

// judgeProg compares an observation with the allowed outcome of the definition layer.
func judgeProg(c *Case, obs Obs) Verdict {
	al := c.Allow
	canonOutcome(&al.V, al.Eff)
	canonOutcome(&obs.V, obs.Eff)
	v := Verdict{Obs: obs, Class: al.K}
	sig := c.Sig
	if sig == "" {
		sig = c.Tag
	}
	if al.K == "div" {
		v.Verdict = "skip"
		return v
	}
	if obs.K == "infra" {
		v.Verdict = "infra"
		return v
	}
	if al.K == "unspec" {
		if obs.K == "panic" || obs.K == "hang" {
			v.Verdict = "abstain"
			v.Note = "oracle abstains; " + obs.K + " at " + obs.Site
			return v
		}
		v.Verdict = "abstain"
		return v
	}
	if obs.K == "panic" || obs.K == "hang" {
		v.Verdict = obs.K
		v.Key = fmt.Sprintf("%s:%s:%s", obs.K, obs.Site, sig)
		return v
	}
	bad := func(what string) Verdict {
		v.Verdict = "mismatch"
		v.Key = fmt.Sprintf("value:%s:%s->%s:%s", sig, al.K, obs.K, what)
		v.Note = what
		return v
	}
	if al.K == "err" && !exactErrClasses[al.V.S] {
		// a host error of an unnamed class: any error will do (the binder turns a
		// reflect panic into a thrown message string)
		if obs.K != "err" && obs.K != "thr" {
			return bad("kind")
		}
	} else if al.K != obs.K {
		return bad("kind")
	}
	if (al.K == "val" || al.K == "thr" || al.K == "err") && !EqualNode(al.V, obs.V) {
		return bad("value")
	}
	if !effEqual(al.Eff, obs.Eff) {
		return bad("effects")
	}
	for g, want := range al.G {
		if got, ok := obs.G[g]; !ok || !EqualNode(want, got) {
			return bad("global:" + g)
		}
	}
	if c.Opt["long_run_constant"] == "1" {
		for i := range obs.Depth {
			if obs.Depth[i] != obs.Depth[0] {
				v.Verdict = "mismatch"
				v.Key = "stack:grows-where-tail:long:" + sig
				v.Note = fmt.Sprintf("long tail loop: depth %d at iteration 1, %d at iteration %d", obs.Depth[0], obs.Depth[i], i+1)
				return v
			}
		}
	}
	// tail-call discipline: the SIGN of every depth difference between probe calls must be
	// the one the definition predicts (equal where it says tail, deeper where it says not)
	if len(al.Depths) > 0 {
		if len(obs.Depth) != len(al.Depths) {
			return bad("probe-count")
		}
		sign := func(x int) int {
			switch {
			case x < 0:
				return -1
			case x > 0:
				return 1
			}
			return 0
		}
		for i := range al.Depths {
			for j := i + 1; j < len(al.Depths); j++ {
				if sign(al.Depths[i]-al.Depths[j]) != sign(obs.Depth[i]-obs.Depth[j]) {
					v.Verdict = "mismatch"
					grow := "grows-where-tail"
					if al.Depths[i] != al.Depths[j] {
						grow = "constant-where-not-tail"
					}
					v.Key = fmt.Sprintf("stack:%s:%s", grow, sig)
					v.Note = fmt.Sprintf("host stack depth at probe calls %d and %d: observed %d and %d, definition %d and %d",
						i+1, j+1, obs.Depth[i], obs.Depth[j], al.Depths[i], al.Depths[j])
					return v
				}
			}
		}
	}
	v.Verdict = "ok"
	return v
}

func runProg(c *Case) Verdict {
	var globals []string
	for g := range c.Allow.G {
		globals = append(globals, g)
	}
	forms := c.Forms
	if c.Ctx != "" {
		pre, ok := contexts[c.Ctx]
		if !ok {
			return Verdict{Verdict: "infra", Note: "unknown context " + c.Ctx}
		}
		forms = append(append([]Node{}, pre...), c.Forms...)
	}
	timeout := 20 * time.Second
	if c.Opt["long_run_constant"] == "1" {
		timeout = 600 * time.Second
	}
	text := ""
	if c.Opt["route"] == "text" {
		text = c.Text
	}
	obs := runProgramText(forms, text, globals, timeout)
	v := judgeProg(c, obs)
	if v.Verdict == "ok" && c.Opt["alsotext"] == "1" && text == "" {
		// the same program once more, printed and READ back: its forms now carry positions (a form built
		// from JSON has none, and what the evaluator does with generated code depends on them)
		printed := ""
		for _, f := range forms {
			printed += lisp.PRINT(ToMal(f)) + "\n"
		}
		v2 := judgeProg(c, runProgramText(nil, printed, globals, timeout))
		if v2.Verdict == "mismatch" || v2.Verdict == "panic" || v2.Verdict == "hang" {
			v2.Key += ":text-route"
			v2.Note += " (program printed and read back; the same forms built directly behave as defined)"
			return v2
		}
	}
	return v
}
