package main

import (
	"context"
	"errors"
	"fmt"
	"sync"
	"time"

	"dotless"

	"github.com/jig/lisp"
	"github.com/jig/lisp/env"
	"github.com/jig/lisp/types"
	"verif.local/harness/dotted"
)

func init() {
	kinds["binder"] = runBinder
}

type binderCase struct {
	Fn          string `json:"fn"`
	Entry       string `json:"entry"`
	Path        string `json:"path"`
	Bounds      []int  `json:"bounds"`
	Mode        string `json:"mode"`
	CtxExpected int    `json:"ctx_expected"`
	Expect      string `json:"expect"`
	Result      string `json:"result"`
	CtxEnd      int    `json:"ctxend"` // 1: the last argument expression cancels the context of the evaluation
}

var binderMu sync.Mutex

func runBinder(c *Case) Verdict {
	binderMu.Lock()
	defer binderMu.Unlock()
	v := Verdict{Class: c.Expect}
	sig := fmt.Sprintf("%s:%s:%s", c.Entry, c.Path, c.Fn)
	ns := env.NewEnv()
	var fn interface{}
	var reset func(string)
	var entered func() (bool, bool, []interface{})
	var errRet, errPan error
	var receiver interface{}
	if c.Path == "dotless" {
		receiver = dotless.BinderReceivers[c.Fn]
	} else {
		receiver = dotted.BinderReceivers[c.Fn]
	}
	if c.Path == "dotless" {
		fn = dotless.BinderFuncs[c.Fn]
		reset = dotless.BinderReset
		entered = func() (bool, bool, []interface{}) {
			return dotless.BinderWasEntered, dotless.BinderGotCtx, dotless.BinderArgs
		}
		errRet, errPan = dotless.ErrBinderReturned, dotless.ErrBinderPanic
	} else {
		fn = dotted.BinderFuncs[c.Fn]
		reset = dotted.BinderReset
		entered = func() (bool, bool, []interface{}) {
			return dotted.BinderWasEntered, dotted.BinderGotCtx, dotted.BinderArgs
		}
		errRet, errPan = dotted.ErrBinderReturned, dotted.ErrBinderPanic
	}
	if fn == nil {
		return Verdict{Verdict: "infra", Note: "no generated function " + c.Fn}
	}
	// registration
	kind, site, msg := guarded(10*time.Second, func() {
		if c.Path == "dotless" {
			dotless.Register(ns, c.Entry, c.Name, fn, c.Bounds...)
		} else {
			dotted.Register(ns, c.Entry, c.Name, fn, c.Bounds...)
		}
	})
	if kind != "" {
		v.Verdict = "mismatch"
		v.Key = fmt.Sprintf("register-%s:%s:%s:%s", kind, site, c.Entry, c.Path)
		v.Note = fmt.Sprintf("registration of %s (%s, %s path, bounds %v) %s: %s", c.Fn, c.Entry, c.Path, c.Bounds, kind, msg)
		return v
	}
	if _, gerr := ns.Get(types.Symbol{Val: c.Name}); gerr != nil {
		v.Verdict = "mismatch"
		v.Key = fmt.Sprintf("name:%s:%s", c.Entry, c.Path)
		v.Note = fmt.Sprintf("%s not registered under %q", c.Fn, c.Name)
		return v
	}
	reset(c.Mode)
	form := []types.MalType{types.Symbol{Val: c.Name}}
	if receiver != nil {
		// a method expression: its receiver (a host value held in a global) is the first lisp argument
		ns.Set(types.Symbol{Val: "the-receiver"}, receiver)
		form = append(form, types.Symbol{Val: "the-receiver"})
	}
	for i, a := range c.Args {
		if i == len(c.Args)-1 && c.CtxEnd == 1 {
			// the last argument is (cancel!), whose value is nil: the context ends while the arguments are evaluated
			form = append(form, types.List{Val: []types.MalType{types.Symbol{Val: "cancel!"}}})
			continue
		}
		form = append(form, quoted(a))
	}
	var res types.MalType
	var eerr error
	ectx, ecancel := context.WithCancel(context.Background())
	defer ecancel()
	ns.Set(types.Symbol{Val: "cancel!"}, types.Func{Fn: func(_ context.Context, _ []types.MalType) (types.MalType, error) {
		ecancel()
		return nil, nil
	}})
	kind, site, msg = guarded(10*time.Second, func() {
		res, eerr = lisp.EVAL(ectx, types.List{Val: form}, ns)
	})
	wasEntered, gotCtx, gotArgs := entered()
	obs := map[string]interface{}{"entered": wasEntered, "ctx": gotCtx, "err": fmt.Sprint(eerr)}
	v.Obs = obs
	argsig := fmt.Sprintf("n%d", len(c.Args))
	bad := func(what string) Verdict {
		v.Verdict = "mismatch"
		v.Key = fmt.Sprintf("contract:%s:%s:%s", what, c.Tag, boundsSig(c))
		v.Note = fmt.Sprintf("%s: %s %s bounds %v args %s mode %s: expected %s/%s; entered=%v err=%v result=%s",
			what, sig, argsig, c.Bounds, Canon(Node{T: "list", Xs: c.Args}), c.Mode, c.Expect, c.Result, wasEntered, eerr, Canon(FromMal(res)))
		return v
	}
	if kind != "" {
		v.Verdict = kind
		v.Key = fmt.Sprintf("%s:%s:binder", kind, site)
		v.Note = msg
		return v
	}
	if c.Expect == "error" {
		if wasEntered {
			return bad("entered-outside-contract")
		}
		if eerr == nil {
			return bad("no-error-outside-contract")
		}
		v.Verdict = "ok"
		return v
	}
	// invoke
	if !wasEntered {
		return bad("not-entered-inside-contract")
	}
	if (c.CtxExpected == 1) != gotCtx {
		return bad("context-injection")
	}
	if len(gotArgs) != len(c.Args) {
		return bad("argument-count-delivered")
	}
	for i, a := range c.Args {
		if !EqualNode(a, FromMal(gotArgs[i])) {
			return bad("argument-delivered")
		}
	}
	switch c.Result {
	case "nil":
		if eerr != nil || res != nil {
			return bad("result-nil")
		}
	case "value":
		if eerr != nil || res != "binder-result" {
			return bad("result-value")
		}
	case "returned-error":
		if eerr == nil || !errors.Is(eerr, errRet) {
			return bad("result-returned-error")
		}
	case "panic-error":
		if eerr == nil || !errors.Is(eerr, errPan) {
			return bad("panic-not-wrapped")
		}
	case "panic-value":
		if eerr == nil {
			return bad("panic-value-lost")
		}
		// "still wraps the original": the value the function panicked with is what a handler gets
		var le interface{ ErrorValue() types.MalType }
		if !errors.As(eerr, &le) {
			return bad("panic-value-not-a-lisp-error")
		}
		if s, ok := le.ErrorValue().(string); !ok || s != "binder-panic-string" {
			return bad("panic-value-replaced")
		}
	}
	v.Verdict = "ok"
	return v
}

func boundsSig(c *Case) string {
	ctx := "noctx"
	if c.CtxExpected == 1 {
		ctx = "ctx"
	}
	switch len(c.Bounds) {
	case 0:
		return ctx + ":derived"
	case 1:
		return ctx + ":min"
	}
	return ctx + ":minmax"
}
