package main

import (
	"context"
	"fmt"
	"strings"
	"time"

	"github.com/jig/lisp"
	"github.com/jig/lisp/debuggertypes"
	"github.com/jig/lisp/types"
)

func init() {
	kinds["stepper"] = runStepper
}

// Visit is one (form, visible bindings) pair the definition layer hands to an evaluation.
type Visit struct {
	F Node    `json:"f"`
	B NodeMap `json:"b"`
}

var watchNames = []string{"x", "y", "e", "q"}

// all cyclic scripts of length 1..n over the four commands
func stepperScripts(n int) [][]debuggertypes.Command {
	cmds := []debuggertypes.Command{debuggertypes.NoOp, debuggertypes.Next, debuggertypes.In, debuggertypes.Out}
	var out [][]debuggertypes.Command
	var rec func(cur []debuggertypes.Command)
	rec = func(cur []debuggertypes.Command) {
		if len(cur) > 0 {
			out = append(out, append([]debuggertypes.Command{}, cur...))
		}
		if len(cur) == n {
			return
		}
		for _, c := range cmds {
			rec(append(cur, c))
		}
	}
	rec(nil)
	return out
}

var scriptLen = 3

func stripGensym(n *Node) {
	if n.T == "sym" && gensymRE.MatchString(n.S) {
		n.S = "G__#"
	}
	if n.T == "err" && !exactErrClasses[n.S] {
		n.S = "" // an opaque host error: only its being an error is compared
	}
	for i := range n.Xs {
		stripGensym(&n.Xs[i])
	}
	for k, v := range n.M {
		stripGensym(&v)
		n.M[k] = v
	}
}

func visitKey(f Node, b map[string]Node) string {
	stripGensym(&f)
	var sb strings.Builder
	sb.WriteString(Canon(f))
	for _, w := range watchNames {
		v, ok := b[w]
		if !ok {
			v = Node{T: "unbound"}
		}
		stripGensym(&v)
		sb.WriteString(" | " + w + "=" + Canon(v))
	}
	return sb.String()
}

// runStepper: the stepper is process-wide state, so these cases run with -workers 1.
func runStepper(c *Case) Verdict {
	al := c.Allow
	v := Verdict{Class: al.K}
	if al.K == "div" {
		v.Verdict = "abstain"
		return v
	}
	var ref *Obs // the run WITHOUT a stepper: every scripted run must equal it, whatever the definition says
	model := map[string]bool{}
	for _, vis := range al.Visits {
		model[visitKey(vis.F, vis.B)] = true
	}
	var globals []string
	for g := range al.G {
		globals = append(globals, g)
	}
	pre := contexts[c.Ctx]
	scripts := append([][]debuggertypes.Command{nil}, stepperScripts(scriptLen)...)
	for _, script := range scripts {
		ns, probe, err := NewLoadedEnv()
		if err != nil {
			return Verdict{Verdict: "infra", Note: err.Error()}
		}
		ctx, cancelCtx := context.WithCancel(context.Background())
		probe.Cancel = cancelCtx
		var res types.MalType
		var eerr error
		var foreign string
		calls := 0
		kind, site, msg := guarded(30*time.Second, func() {
			lisp.Stepper = nil
			lisp.VerifResetStepper()
			for _, f := range pre {
				if _, e := lisp.EVAL(ctx, ToMal(f), ns); e != nil {
					eerr = fmt.Errorf("context failed: %w", e)
					return
				}
			}
			if script != nil {
				lisp.Stepper = func(ast types.MalType, env types.EnvType) debuggertypes.Command {
					b := map[string]Node{}
					for _, w := range watchNames {
						if val, gerr := env.Get(types.Symbol{Val: w}); gerr == nil {
							b[w] = FromMal(val)
						}
					}
					k := visitKey(FromMal(ast), b)
					if !model[k] && foreign == "" {
						foreign = k
					}
					cmd := script[calls%len(script)]
					calls++
					return cmd
				}
			}
			defer func() { lisp.Stepper = nil; lisp.VerifResetStepper() }()
			// the program is READ from its text under a module name, so that forms and errors carry
			// positions (a stepper that disturbs them is a change of "the same error")
			ast, rerr := lisp.READ(c.Src, types.NewCursorFile("stepmod"), ns)
			if rerr != nil || c.Src == "" || len(c.Forms) != 1 {
				for _, f := range c.Forms {
					res, eerr = lisp.EVAL(ctx, ToMal(f), ns)
					if eerr != nil {
						return
					}
				}
				return
			}
			res, eerr = lisp.EVAL(ctx, ast, ns)
		})
		lisp.Stepper = nil
		lisp.VerifResetStepper()
		scriptName := "none"
		if script != nil {
			scriptName = fmt.Sprint(script)
		}
		obs := Obs{Eff: probe.effects()}
		if kind != "" {
			v.Verdict = kind
			v.Key = fmt.Sprintf("%s:%s:stepper", kind, site)
			v.Note = fmt.Sprintf("script %s: %s", scriptName, msg)
			return v
		}
		if eerr != nil {
			obs.K, obs.V = classifyErr(eerr)
			obs.Msg = eerr.Error()
		} else {
			obs.K, obs.V = "val", FromMal(res)
		}
		obs.G = map[string]Node{}
		for _, g := range globals {
			val, gerr := ns.Get(types.Symbol{Val: g})
			if gerr != nil {
				obs.G[g] = Node{T: "unbound"}
			} else {
				obs.G[g] = FromMal(val)
			}
		}
		if script == nil {
			o := obs
			ref = &o
		} else if ref != nil {
			diff := ""
			switch {
			case ref.K != obs.K:
				diff = "kind"
			case !(EqualNode(ref.V, obs.V) && EqualNode(obs.V, ref.V)):
				diff = "value"
			case ref.K != "val" && ref.Msg != obs.Msg:
				diff = "error-text"
			case !effEqual(ref.Eff, obs.Eff) || !effEqual(obs.Eff, ref.Eff):
				diff = "effects"
			}
			if diff != "" {
				v.Verdict = "mismatch"
				v.Key = fmt.Sprintf("stepper:differs-from-plain-run:%s:%s", c.Tag, diff)
				v.Note = fmt.Sprintf("script %s: %s %s (%s); without a stepper: %s %s (%s)", scriptName, obs.K, Canon(obs.V), obs.Msg,
					ref.K, Canon(ref.V), ref.Msg)
				return v
			}
		}
		if al.K == "unspec" {
			continue
		}
		cc := *c
		alc := *al
		alc.Depths = nil
		cc.Allow = &alc
		jv := judgeProg(&cc, obs)
		if jv.Verdict != "ok" {
			what := "changed-by-stepper"
			if script == nil {
				what = "without-stepper"
			}
			jv.Key = fmt.Sprintf("stepper:%s:%s:%s", what, c.Tag, jv.Note)
			jv.Note = fmt.Sprintf("script %s: %s (%s)", scriptName, jv.Note, obs.Msg)
			return jv
		}
		if foreign != "" {
			v.Verdict = "mismatch"
			v.Key = fmt.Sprintf("stepper:foreign-form-or-scope:%s", c.Tag)
			v.Note = fmt.Sprintf("script %s: the callback was handed %s, which no evaluation of this program is handed", scriptName, foreign)
			return v
		}
	}
	v.Verdict = "ok"
	v.Obs = map[string]int{"scripts": len(scripts), "model_visits": len(model)}
	return v
}
