package main

import (
	"bufio"
	"context"
	"encoding/json"
	"flag"
	"fmt"
	"math/rand"
	"os"
	"runtime"
	"strconv"
	"strings"
	"sync"
	"sync/atomic"
	"time"

	"github.com/jig/lisp"
	"github.com/jig/lisp/lib/concurrent"
	"github.com/jig/lisp/types"
)

func init() {
	commands["atoms"] = cmdAtoms
}

// AtomEvent is one line of the recorded trace (spec/TraceAtom.tla consumes it).
type AtomEvent struct {
	Seq  int64  `json:"seq"`
	Ev   string `json:"ev"`   // begin | inv | res | read | snap | set | reset
	Tid  int    `json:"tid"`  // harness thread number (1..)
	Atom int    `json:"atom"` // atom number (1..), 0 = none
	Op   string `json:"op"`   // deref | reset | swapinc | swapfail | swapaddother | swapaddself | swapswapother | print
	B    int    `json:"b"`    // the other atom of the update function
	Val  int    `json:"val"`  // value read / installed / returned (-1 = error)
	N    int    `json:"n"`    // begin: number of atoms
}

type atomRecorder struct {
	gate   func(point string, tid int) // schedule control for the deterministic scenarios
	mu     sync.Mutex
	seq    int64
	events []AtomEvent
	atoms  map[*concurrent.Atom]int
	tids   sync.Map // goroutine id -> tid
}

func goid() int64 {
	var buf [64]byte
	n := runtime.Stack(buf[:], false)
	s := strings.TrimPrefix(string(buf[:n]), "goroutine ")
	if i := strings.IndexByte(s, ' '); i > 0 {
		id, _ := strconv.ParseInt(s[:i], 10, 64)
		return id
	}
	return -1
}

func (r *atomRecorder) emit(e AtomEvent) {
	r.mu.Lock()
	r.seq++
	e.Seq = r.seq
	r.events = append(r.events, e)
	r.mu.Unlock()
}

// vecStyle: the atoms of the running scenario hold GROWING vectors (style "vec"): a value is abstracted to its length
var vecStyle int32

func intOf(v types.MalType) int {
	if i, ok := v.(int); ok {
		return i
	}
	if atomic.LoadInt32(&vecStyle) == 1 {
		if vec, ok := v.(types.Vector); ok {
			return len(vec.Val)
		}
	}
	// "seq" style: the atom holds [n] (encoded n) or (n) (encoded 1000+n): values that are = but distinguishable
	if vec, ok := v.(types.Vector); ok && len(vec.Val) == 1 {
		if i, ok := vec.Val[0].(int); ok {
			return i
		}
	}
	if lst, ok := v.(types.List); ok && len(lst.Val) == 1 {
		if i, ok := lst.Val[0].(int); ok {
			return 1000 + i
		}
	}
	// "map" style: the atom holds {:k n}
	if m, ok := v.(types.HashMap); ok {
		if x, found := m.Val["\u029ek"]; found {
			if i, ok := x.(int); ok {
				return i
			}
		}
	}
	return -999
}

// hook: called by lib/concurrent at the linearization points (under the atom's lock)
func (r *atomRecorder) hook(point string, obj interface{}) {
	a, ok := obj.(*concurrent.Atom)
	if !ok {
		return
	}
	id, known := r.atoms[a]
	if !known {
		return
	}
	tidv, ok := r.tids.Load(goid())
	if !ok {
		return
	}
	tid := tidv.(int)
	switch point {
	case "deref.read":
		r.emit(AtomEvent{Ev: "read", Tid: tid, Atom: id, Val: intOf(a.Val)})
	case "swap.read":
		r.emit(AtomEvent{Ev: "snap", Tid: tid, Atom: id, Val: intOf(a.Val)})
	case "swap.set":
		r.emit(AtomEvent{Ev: "set", Tid: tid, Atom: id, Val: intOf(a.Val)})
	case "reset.set":
		r.emit(AtomEvent{Ev: "reset", Tid: tid, Atom: id, Val: intOf(a.Val)})
	}
	if g := r.gate; g != nil {
		g(point, tid)
	}
	if atomic.LoadInt32(&atomYield) != 0 && rand.Intn(3) == 0 {
		runtime.Gosched()
	}
}

var atomYield int32 = 1

type atomOp struct {
	Op   string
	Atom int
	B    int
	V    int
}

var atomOpKinds = []string{"deref", "reset", "swapinc", "swapinc", "swapfail", "swapaddother", "swapaddself", "swapswapother", "print"}

// lisp source of an operation on atoms a1..an.  style "map": the atoms hold {:k n} and every update goes
// through the BUILTIN higher-order function update, (swap! a update :k f): the same abstract operations,
// with a host function as swap!'s update function and the lisp function called back from inside it
func atomOpSrc(o atomOp, style string) string {
	a := fmt.Sprintf("a%d", o.Atom)
	b := fmt.Sprintf("a%d", o.B)
	if style == "vec" {
		// the atom holds a vector that every swap! extends with conj by an element no other operation uses
		// (o.V, unique in the scenario): abstract value = length; at the end all elements must be distinct
		switch o.Op {
		case "deref":
			return "(count @" + a + ")"
		case "swapfail":
			return fmt.Sprintf("(count (swap! %s (fn [v] (throw \"update failed\"))))", a)
		case "print":
			return fmt.Sprintf("(pr-str %s)", a)
		default:
			return fmt.Sprintf("(count (swap! %s conj %d))", a, o.V)
		}
	}
	if style == "seq" {
		lit := func(enc int) string {
			if enc >= 1000 {
				return fmt.Sprintf("(list %d)", enc-1000)
			}
			return fmt.Sprintf("[%d]", enc)
		}
		switch o.Op {
		case "deref":
			return "(enc @" + a + ")"
		case "reset":
			return fmt.Sprintf("(enc (reset! %s %s))", a, lit(o.V))
		case "swapflip":
			return fmt.Sprintf("(enc (swap! %s (fn [v] (if (vector? v) (apply list v) (vec v)))))", a)
		case "swapfail":
			return fmt.Sprintf("(enc (swap! %s (fn [v] (throw \"update failed\"))))", a)
		case "print":
			return fmt.Sprintf("(pr-str %s)", a)
		default: // every other update function: increment, keeping the kind
			return fmt.Sprintf("(enc (swap! %s (fn [v] (if (vector? v) [(+ (first v) 1)] (list (+ (first v) 1))))))", a)
		}
	}
	if style == "map" {
		switch o.Op {
		case "deref":
			return "(get @" + a + " :k)"
		case "reset":
			return fmt.Sprintf("(get (reset! %s {:k %d}) :k)", a, o.V)
		case "swapinc":
			return fmt.Sprintf("(get (swap! %s update :k inc) :k)", a)
		case "swapfail":
			return fmt.Sprintf("(get (swap! %s update :k (fn [x] (throw \"update failed\"))) :k)", a)
		case "swapaddother":
			return fmt.Sprintf("(get (swap! %s update :k (fn [x] (+ x (get @%s :k)))) :k)", a, b)
		case "swapaddself":
			return fmt.Sprintf("(get (swap! %s update :k (fn [x] (+ x (get @%s :k)))) :k)", a, a)
		case "swapswapother":
			return fmt.Sprintf("(get (swap! %s update :k (fn [x] (do (swap! %s update :k inc) (+ x 1)))) :k)", a, b)
		case "print":
			return fmt.Sprintf("(pr-str %s)", a)
		}
		return "nil"
	}
	switch o.Op {
	case "deref":
		return "@" + a
	case "reset":
		return fmt.Sprintf("(reset! %s %d)", a, o.V)
	case "swapinc":
		return fmt.Sprintf("(swap! %s + 1)", a)
	case "swapfail":
		return fmt.Sprintf("(swap! %s (fn [x] (throw \"update failed\")))", a)
	case "swapaddother":
		return fmt.Sprintf("(swap! %s (fn [x] (+ x @%s)))", a, b)
	case "swapaddself":
		return fmt.Sprintf("(swap! %s (fn [x] (+ x @%s)))", a, a)
	case "swapswapother":
		return fmt.Sprintf("(swap! %s (fn [x] (do (swap! %s + 1) (+ x 1))))", a, b)
	case "print":
		return fmt.Sprintf("(pr-str %s)", a)
	}
	return "nil"
}

type atomScenario struct {
	NAtoms  int
	Scripts [][]atomOp
	Style   string // "" (the atoms hold integers) | "map" (they hold {:k n}, updated through the builtin update)
	// Handoff: thread 2 starts only when thread 1 is at its swap.set point (still holding the write lock) and has
	// time to queue up for the lock: it is the next writer, before anything thread 1 does after unlocking
	Handoff bool
}

func randomAtomScenario(rnd *rand.Rand, maxThreads, maxOps int) atomScenario {
	sc := atomScenario{NAtoms: 1 + rnd.Intn(2)}
	nt := 2 + rnd.Intn(maxThreads-1)
	for t := 0; t < nt; t++ {
		var script []atomOp
		n := 1 + rnd.Intn(maxOps)
		for i := 0; i < n; i++ {
			o := atomOp{Op: atomOpKinds[rnd.Intn(len(atomOpKinds))], Atom: 1 + rnd.Intn(sc.NAtoms), V: rnd.Intn(50)}
			o.B = o.Atom%sc.NAtoms + 1
			if sc.NAtoms == 1 && (o.Op == "swapaddother" || o.Op == "swapswapother") {
				o.Op = "swapaddself"
			}
			script = append(script, o)
		}
		sc.Scripts = append(sc.Scripts, script)
	}
	return sc
}

// fixed scenarios the model flags for the lock-held design: self-read and AB/BA cross swaps
func dangerousAtomScenarios() []atomScenario {
	return []atomScenario{
		{NAtoms: 1, Scripts: [][]atomOp{{{Op: "swapaddself", Atom: 1, B: 1}}, {{Op: "swapinc", Atom: 1, B: 1}}, {{Op: "deref", Atom: 1, B: 1}}}},
		{NAtoms: 2, Scripts: [][]atomOp{{{Op: "swapswapother", Atom: 1, B: 2}}, {{Op: "swapswapother", Atom: 2, B: 1}}, {{Op: "deref", Atom: 2, B: 1}}}},
		{NAtoms: 2, Scripts: [][]atomOp{{{Op: "swapswapother", Atom: 1, B: 2}, {Op: "deref", Atom: 2, B: 1}},
			{{Op: "swapinc", Atom: 2, B: 1}, {Op: "swapaddother", Atom: 2, B: 1}}, {{Op: "reset", Atom: 1, B: 2, V: 3}, {Op: "swapfail", Atom: 2, B: 1}}}},
	}
}

// runAtomScenario executes one scenario on the real code; returns "" or a hang description
func runAtomScenario(rec *atomRecorder, sc atomScenario) (hang string, infra error) {
	ns, _, err := NewLoadedEnv()
	if err != nil {
		return "", err
	}
	ctx := context.Background()
	rec.atoms = map[*concurrent.Atom]int{}
	for i := 1; i <= sc.NAtoms; i++ {
		init := "0"
		if sc.Style == "map" {
			init = "{:k 0}"
		}
		if sc.Style == "seq" {
			init = "[0]"
		}
		if sc.Style == "vec" {
			init = "[]"
		}
		ast, _ := lisp.READ(fmt.Sprintf("(def a%d (atom %s))", i, init), nil, ns)
		v, e := lisp.EVAL(ctx, ast, ns)
		if e != nil {
			return "", e
		}
		rec.atoms[v.(*concurrent.Atom)] = i
	}
	if sc.Style == "seq" {
		ast, _ := lisp.READ("(def enc (fn [v] (+ (first v) (if (vector? v) 0 1000))))", nil, ns)
		if _, e := lisp.EVAL(ctx, ast, ns); e != nil {
			return "", e
		}
	}
	if sc.Style == "vec" {
		atomic.StoreInt32(&vecStyle, 1)
	} else {
		atomic.StoreInt32(&vecStyle, 0)
	}
	rec.emit(AtomEvent{Ev: "begin", N: sc.NAtoms})
	// pre-read all operations
	asts := make([][]types.MalType, len(sc.Scripts))
	for t, script := range sc.Scripts {
		for _, o := range script {
			ast, rerr := lisp.READ(atomOpSrc(o, sc.Style), nil, ns)
			if rerr != nil {
				return "", rerr
			}
			asts[t] = append(asts[t], ast)
		}
	}
	var wg sync.WaitGroup
	start := make(chan struct{})
	second := make(chan struct{})
	var secondOnce sync.Once
	rec.gate = nil
	if sc.Handoff {
		rec.gate = func(point string, tid int) {
			if point == "swap.set" && tid == 1 {
				secondOnce.Do(func() { close(second) })
				time.Sleep(3 * time.Millisecond) // thread 2 reaches Lock() and waits for it
			}
		}
		defer func() { rec.gate = nil }()
	}
	for t := range sc.Scripts {
		wg.Add(1)
		go func(t int) {
			defer wg.Done()
			rec.tids.Store(goid(), t+1)
			<-start
			if sc.Handoff && t == 1 {
				select {
				case <-second:
				case <-time.After(2 * time.Second):
				}
			}
			for i, o := range sc.Scripts[t] {
				rec.emit(AtomEvent{Ev: "inv", Tid: t + 1, Atom: o.Atom, Op: o.Op, B: o.B, Val: o.V})
				res, e := lisp.EVAL(ctx, asts[t][i], ns)
				val := -1
				if e == nil {
					val = intOf(res)
				}
				rec.emit(AtomEvent{Ev: "res", Tid: t + 1, Atom: o.Atom, Op: o.Op, Val: val})
			}
		}(t)
	}
	close(start)
	done := make(chan struct{})
	go func() { wg.Wait(); close(done) }()
	select {
	case <-done:
		if sc.Style == "vec" {
			// no update lost or overwritten: every element of the final vectors is distinct
			for at, id := range rec.atoms {
				if vec, ok := atomPeek(at).(types.Vector); ok {
					seen := map[types.MalType]bool{}
					for _, e := range vec.Val {
						seen[e] = true
					}
					rec.emit(AtomEvent{Ev: "final", Atom: id, Val: len(seen), N: len(vec.Val)})
				}
			}
		}
		return "", nil
	case <-time.After(10 * time.Second):
		// structural verdict: where are the goroutines parked?
		buf := make([]byte, 1<<20)
		n := runtime.Stack(buf, true)
		st := string(buf[:n])
		reasons := []string{}
		for _, g := range strings.Split(st, "\n\n") {
			if !strings.Contains(g, "runAtomScenario") || strings.Contains(g, "wg.Wait") {
				continue
			}
			hdr := g
			if i := strings.IndexByte(g, '\n'); i > 0 {
				hdr = g[:i]
			}
			if i := strings.Index(hdr, "["); i > 0 {
				hdr = strings.TrimSuffix(hdr[i+1:], "]:")
				if j := strings.Index(hdr, ","); j > 0 {
					hdr = hdr[:j]
				}
			}
			reasons = append(reasons, hdr)
		}
		return strings.Join(reasons, "|"), nil
	}
}

func cmdAtoms(args []string) {
	fs := flag.NewFlagSet("atoms", flag.ExitOnError)
	n := fs.Int("n", 200, "number of random scenarios")
	seed := fs.Int64("seed", 1, "random seed")
	out := fs.String("out", "atoms.ndjson", "trace file")
	maxThreads := fs.Int("threads", 4, "max threads per scenario")
	maxOps := fs.Int("ops", 4, "max operations per thread")
	fs.Parse(args)
	rnd := rand.New(rand.NewSource(*seed))
	rec := &atomRecorder{}
	concurrent.VerifHook = rec.hook
	f, err := os.Create(*out)
	if err != nil {
		fmt.Fprintln(os.Stderr, err)
		os.Exit(2)
	}
	w := bufio.NewWriter(f)
	enc := json.NewEncoder(w)
	scenarios := []atomScenario{}
	for i := 0; i < 8; i++ {
		for _, sc := range dangerousAtomScenarios() {
			if i%2 == 1 {
				sc.Style = "map"
			}
			scenarios = append(scenarios, sc)
		}
	}
	// hand-off scenarios: a writer queued for the lock while a swap! is at its commit point
	for i := 0; i < 6; i++ {
		sc := atomScenario{NAtoms: 1, Handoff: true, Scripts: [][]atomOp{
			{{Op: "swapinc", Atom: 1, B: 1, V: 1001}, {Op: "deref", Atom: 1, B: 1}},
			{{Op: []string{"reset", "swapinc"}[i%2], Atom: 1, B: 1, V: 7}}}}
		if i >= 4 {
			sc.Style = "map"
		}
		scenarios = append(scenarios, sc)
	}
	// hot scenarios: six threads, eight swaps each, all on one atom (a writer is nearly always waiting for the lock)
	for i := 0; i < 48; i++ {
		sc := atomScenario{NAtoms: 1}
		for t := 0; t < 6; t++ {
			var script []atomOp
			for k := 0; k < 8; k++ {
				op := "swapinc"
				if k%4 == 3 {
					op = "deref"
				}
				script = append(script, atomOp{Op: op, Atom: 1, B: 1, V: 1000*(t+1) + k})
			}
			sc.Scripts = append(sc.Scripts, script)
		}
		switch i % 3 {
		case 1:
			sc.Style = "map"
		case 2:
			sc.Style = "vec"
		}
		scenarios = append(scenarios, sc)
	}
	for i := 0; i < *n; i++ {
		sc := randomAtomScenario(rnd, *maxThreads, *maxOps)
		if i%3 == 2 {
			sc.Style = "map"
		}
		if i%6 == 4 {
			// growing vectors: every update is (swap! a conj <unique element>)
			sc.Style = "vec"
			for t := range sc.Scripts {
				for k := range sc.Scripts[t] {
					o := &sc.Scripts[t][k]
					o.V = 1000*(t+1) + k
					switch o.Op {
					case "deref", "swapfail", "print":
					default:
						o.Op = "swapinc"
					}
				}
			}
		}
		if i%6 == 1 {
			// values that are = but distinguishable (list / vector): ops restricted to deref, reset, inc, flip, fail
			sc.Style = "seq"
			for t := range sc.Scripts {
				for k := range sc.Scripts[t] {
					o := &sc.Scripts[t][k]
					switch o.Op {
					case "swapaddother", "swapaddself", "swapswapother":
						if rnd.Intn(2) == 0 {
							o.Op = "swapflip"
						} else {
							o.Op = "swapinc"
						}
					case "reset":
						o.V = o.V % 5 // small values: a reset often installs a value = to the current one, of the other kind
						if rnd.Intn(2) == 0 {
							o.V += 1000
						}
					}
				}
			}
		}
		scenarios = append(scenarios, sc)
	}
	hangs := 0
	for i, sc := range scenarios {
		rec.events = rec.events[:0]
		hang, ierr := runAtomScenario(rec, sc)
		if ierr != nil {
			fmt.Fprintln(os.Stderr, "infra:", ierr)
			os.Exit(2)
		}
		if hang != "" {
			hangs++
			b, _ := json.Marshal(map[string]interface{}{"hang": hang, "scenario": sc, "index": i})
			fmt.Fprintf(protoOut, "%s\n", b)
			if hangs >= 3 {
				break
			}
			continue // the trace of a hung scenario is not validated
		}
		rec.mu.Lock()
		for _, e := range rec.events {
			enc.Encode(e)
		}
		rec.mu.Unlock()
	}
	w.Flush()
	f.Close()
	b, _ := json.Marshal(map[string]interface{}{"scenarios": len(scenarios), "hangs": hangs})
	fmt.Fprintf(protoOut, "%s\n", b)
}
