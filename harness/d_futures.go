package main

import (
	"bufio"
	"context"
	"encoding/json"
	"flag"
	"fmt"
	"math/rand"
	"os"
	"strings"
	"sync"
	"time"

	"github.com/jig/lisp"
	"github.com/jig/lisp/lib/concurrent"
	"github.com/jig/lisp/types"
)

func init() {
	commands["futures"] = cmdFutures
}

type FutEvent struct {
	Seq  int64  `json:"seq"`
	Ev   string `json:"ev"` // begin | start | delivered | inv | res | end
	Tid  int    `json:"tid"`
	Op   string `json:"op"`  // deref | done? | cancelled? | cancel
	Val  int    `json:"val"` // boolean answers 0/1; end: number of body executions
	Out  string `json:"out"` // deref outcome: "val:<printed>" | "err:<class>" | "ctx"
	Body string `json:"body"`
}

type futRecorder struct {
	mu     sync.Mutex
	seq    int64
	events []FutEvent
	fut    *concurrent.Future
	gate   func(point string) // deterministic schedules: called at hook points of the current future
}

func (r *futRecorder) emit(e FutEvent) {
	r.mu.Lock()
	r.seq++
	e.Seq = r.seq
	r.events = append(r.events, e)
	r.mu.Unlock()
}

func (r *futRecorder) hook(point string, obj interface{}) {
	f, ok := obj.(*concurrent.Future)
	if !ok {
		return
	}
	r.mu.Lock()
	cur := r.fut
	gate := r.gate
	r.mu.Unlock()
	if cur != nil && f != cur {
		return
	}
	switch point {
	case "future.start":
		r.emit(FutEvent{Ev: "start"})
	case "future.delivered":
		r.emit(FutEvent{Ev: "delivered"})
	}
	if gate != nil {
		gate(point)
	}
}

var futBodies = map[string]string{
	"value":   "(future (do (trace! :body) (grab-ctx!) 42))",
	"error":   "(future (do (trace! :body) (grab-ctx!) (throw \"bad\")))",
	"sleeps":  "(future (do (trace! :body) (grab-ctx!) (sleep 15) 42))",
	// the host call that ignores cancellation is the LAST thing the body does: a cancel arriving during it
	// answers true, and the body still completes with a value
	"ignores": "(future (do (trace! :body) (grab-ctx!) (busy! 15 7)))",
}

func derefOutcome(v types.MalType, e error) string {
	if e == nil {
		return "val:" + lisp.PRINT(v)
	}
	msg := e.Error()
	switch {
	case strings.Contains(msg, "timeout while dereferencing"):
		return "ctx"
	case strings.Contains(msg, "timeout"):
		return "err:timeout"
	case strings.Contains(msg, "bad"):
		return "err:bad"
	}
	return "err:other"
}

// one scenario; deterministic=true replays the model's counterexample window through a gate
// futBornDead: the scenario in which the context the future is created under ends before its body starts
var futBornDead bool

func runFutureScenario(rec *futRecorder, rnd *rand.Rand, body string, deterministic bool, deadctx bool, cancelrace bool, pollrace bool) error {
	ns, probe, err := NewLoadedEnv()
	if err != nil {
		return err
	}
	ns.Set(types.Symbol{Val: "busy!"}, types.Func{Fn: func(_ context.Context, a []types.MalType) (types.MalType, error) {
		ms := 10
		if len(a) >= 1 {
			ms, _ = a[0].(int)
		}
		time.Sleep(time.Duration(ms) * time.Millisecond) // ignores cancellation on purpose
		if len(a) == 2 {
			return a[1], nil
		}
		return nil, nil
	}})
	// the context the body is evaluated under (a child of the creator's): future-cancel on a future that has
	// completed uncancelled "changes nothing", so that context must still be alive afterwards (anything the
	// body started under it, e.g. another future, keeps running)
	var bodyCtx context.Context
	var bodyCtxMu sync.Mutex
	ns.Set(types.Symbol{Val: "grab-ctx!"}, types.Func{Fn: func(c context.Context, a []types.MalType) (types.MalType, error) {
		bodyCtxMu.Lock()
		bodyCtx = c
		bodyCtxMu.Unlock()
		return nil, nil
	}})
	emitBodyCtx := func() {
		bodyCtxMu.Lock()
		c := bodyCtx
		bodyCtxMu.Unlock()
		if c != nil {
			alive := 0
			if c.Err() == nil {
				alive = 1
			}
			rec.emit(FutEvent{Ev: "bodyctx", Val: alive})
		}
	}
	ctx, cancelAll := context.WithCancel(context.Background())
	defer cancelAll()
	bornDead := 0
	if futBornDead {
		bornDead = 1
	}
	rec.emit(FutEvent{Ev: "begin", Body: body, Val: bornDead})
	read := func(src string) types.MalType {
		ast, rerr := lisp.READ(src, nil, ns)
		if rerr != nil {
			panic(rerr)
		}
		return ast
	}
	release := make(chan struct{})
	var once sync.Once
	rec.mu.Lock()
	rec.fut = nil
	checked := make(chan struct{})
	queried := make(chan struct{})
	var checkedOnce sync.Once
	if futBornDead {
		rec.gate = func(point string) {
			if point == "future.start" {
				<-release // hold the body before it starts evaluating
			}
		}
	} else if cancelrace {
		// the model's P5 counterexample of the design whose cancel checks and marks in two steps: the canceller is
		// held between its check and its mark while the body completes, a deref returns and future-cancelled? is
		// asked.  (Where check-and-mark is one critical section the hook is reached under the future's lock: the body
		// cannot complete meanwhile and the waits below simply time out.)
		rec.gate = func(point string) {
			switch point {
			case "future.start":
				<-release
			case "cancel.checked":
				checkedOnce.Do(func() { close(checked) })
				select {
				case <-queried:
				case <-time.After(150 * time.Millisecond):
				}
			}
		}
	} else if deadctx {
		rec.gate = func(point string) {
			if point == "future.start" {
				<-release // hold the body before it starts evaluating
			}
		}
	} else if deterministic {
		rec.gate = func(point string) {
			if point == "future.delivered" {
				<-release // hold the body right after it delivered its outcome
			}
		}
	} else {
		rec.gate = func(point string) {
			if rnd.Intn(2) == 0 {
				time.Sleep(time.Duration(rnd.Intn(300)) * time.Microsecond)
			}
		}
	}
	rec.mu.Unlock()
	defer once.Do(func() { close(release) })
	createCtx, endCreator := context.WithCancel(ctx)
	defer endCreator()
	fv, e := lisp.EVAL(createCtx, read("(def f "+futBodies[body]+")"), ns)
	if e != nil {
		return e
	}
	rec.mu.Lock()
	rec.fut = fv.(*concurrent.Future)
	rec.mu.Unlock()
	op := func(tid int, name, src string, c context.Context) {
		rec.emit(FutEvent{Ev: "inv", Tid: tid, Op: name})
		v, oe := lisp.EVAL(c, read(src), ns)
		ev := FutEvent{Ev: "res", Tid: tid, Op: name}
		if name == "deref" {
			ev.Out = derefOutcome(v, oe)
		} else if b, ok := v.(bool); ok && b {
			ev.Val = 1
		}
		rec.emit(ev)
	}
	if futBornDead {
		// the evaluation that created the future is over and its context has ended before the body got to run:
		// the body runs (once) under an ended context; whatever its outcome, derefs return it and, as soon as one
		// has returned, future-done? is true (P4); future-cancel afterwards finds it completed
		endCreator()
		op(1, "done?", "(future-done? f)", ctx)
		once.Do(func() { close(release) })
		dctx, dcancel := context.WithTimeout(ctx, 5*time.Second)
		op(1, "deref", "@f", dctx)
		dcancel()
		op(1, "done?", "(future-done? f)", ctx)
		op(1, "cancelled?", "(future-cancelled? f)", ctx)
		op(2, "deref", "@f", ctx)
		op(1, "cancel", "(future-cancel f)", ctx)
		op(1, "done?", "(future-done? f)", ctx)
		op(1, "cancelled?", "(future-cancelled? f)", ctx)
	} else if cancelrace {
		cdone := make(chan struct{})
		go func() { op(2, "cancel", "(future-cancel f)", ctx); close(cdone) }()
		select {
		case <-checked:
		case <-time.After(2 * time.Second):
		}
		once.Do(func() { close(release) }) // the body runs now
		short, cf := context.WithTimeout(ctx, 60*time.Millisecond)
		op(1, "deref", "@f", short)
		cf()
		q := make(chan struct{})
		go func() { op(1, "cancelled?", "(future-cancelled? f)", ctx); close(q) }()
		select {
		case <-q:
		case <-time.After(300 * time.Millisecond):
		}
		close(queried)
		<-q
		<-cdone
		op(1, "deref", "@f", ctx)
		op(1, "cancelled?", "(future-cancelled? f)", ctx)
		op(1, "done?", "(future-done? f)", ctx)
	} else if deadctx {
		// P7 / "blocks until the outcome is available OR THE CALLER'S CONTEXT ENDS": the body is held before it
		// evaluates anything; a deref whose caller context has already ended must return (DerefCtx in the model),
		// before and after future-cancel
		dead, kill := context.WithCancel(ctx)
		kill()
		derefDead := func() error {
			ret := make(chan struct{})
			go func() {
				// (a) the Go API with a context that has already ended
				rec.emit(FutEvent{Ev: "inv", Tid: 1, Op: "deref"})
				v, oe := fv.(*concurrent.Future).Deref(dead)
				out := derefOutcome(v, oe)
				rec.emit(FutEvent{Ev: "res", Tid: 1, Op: "deref", Out: out})
				// (b) @f from lisp, the caller's context ending while the deref is blocked
				live, end := context.WithCancel(ctx)
				timer := time.AfterFunc(20*time.Millisecond, end)
				rec.emit(FutEvent{Ev: "inv", Tid: 1, Op: "deref"})
				v, oe = lisp.EVAL(live, read("@f"), ns)
				timer.Stop()
				end()
				out = derefOutcome(v, oe)
				if oe != nil && strings.Contains(oe.Error(), "timeout") {
					out = "ctx" // the body is held: only the caller's context can have ended the deref
				}
				rec.emit(FutEvent{Ev: "res", Tid: 1, Op: "deref", Out: out})
				close(ret)
			}()
			select {
			case <-ret:
				return nil
			case <-time.After(3 * time.Second):
				once.Do(func() { close(release) })
				<-ret
				return fmt.Errorf("HANG: deref with an ended caller context did not return while the body (%s) could not finish", body)
			}
		}
		if e := derefDead(); e != nil {
			return e
		}
		op(1, "done?", "(future-done? f)", ctx)
		op(1, "cancel", "(future-cancel f)", ctx)
		op(1, "cancelled?", "(future-cancelled? f)", ctx)
		if e := derefDead(); e != nil {
			return fmt.Errorf("%v (after future-cancel)", e)
		}
		once.Do(func() { close(release) })
		op(1, "deref", "@f", ctx)
		op(1, "done?", "(future-done? f)", ctx)
		// the outcome is available now: readers whose context has ended may or may not get it, but they never
		// take it away from the readers that come after them ("every deref ... returns the same value")
		for i := 0; i < 64; i++ {
			rec.emit(FutEvent{Ev: "inv", Tid: 1, Op: "deref"})
			v, oe := fv.(*concurrent.Future).Deref(dead)
			rec.emit(FutEvent{Ev: "res", Tid: 1, Op: "deref", Out: derefOutcome(v, oe)})
		}
		back := make(chan struct{})
		go func() { op(1, "deref", "@f", ctx); close(back) }()
		select {
		case <-back:
		case <-time.After(3 * time.Second):
			return fmt.Errorf("HANG: a deref with a live context did not return although the future (%s) had delivered its outcome: the outcome was lost by a reader whose context had ended", body)
		}
	} else if deterministic {
		// the model's counterexample to P4/P5 on the original design: the body has delivered
		// but is held before anything else happens
		dctx, dcancel := context.WithTimeout(ctx, 5*time.Second)
		defer dcancel()
		op(1, "deref", "@f", dctx)
		op(1, "done?", "(future-done? f)", ctx)
		op(1, "cancel", "(future-cancel f)", ctx)
		op(1, "cancelled?", "(future-cancelled? f)", ctx)
		op(1, "done?", "(future-done? f)", ctx)
		emitBodyCtx()
		once.Do(func() { close(release) })
		op(1, "deref", "@f", ctx)
		op(1, "cancelled?", "(future-cancelled? f)", ctx)
		emitBodyCtx()
	} else if pollrace {
		// status predicates polled by two threads while a third cancels and a fourth awaits (for the race detector:
		// every flag is read and written concurrently here)
		var wg sync.WaitGroup
		for t := 1; t <= 2; t++ {
			wg.Add(1)
			go func(t int) {
				defer wg.Done()
				for i := 0; i < 40; i++ {
					op(t, "cancelled?", "(future-cancelled? f)", ctx)
					op(t, "done?", "(future-done? f)", ctx)
				}
			}(t)
		}
		wg.Add(2)
		go func() {
			defer wg.Done()
			time.Sleep(time.Duration(200+rnd.Intn(2000)) * time.Microsecond)
			op(3, "cancel", "(future-cancel f)", ctx)
			op(3, "cancel", "(future-cancel f)", ctx)
		}()
		go func() { defer wg.Done(); op(4, "deref", "@f", ctx) }()
		wg.Wait()
		op(0, "deref", "@f", ctx)
		op(0, "done?", "(future-done? f)", ctx)
		op(0, "cancelled?", "(future-cancelled? f)", ctx)
		emitBodyCtx()
	} else {
		var wg sync.WaitGroup
		nthreads := 2 + rnd.Intn(5)
		for t := 1; t <= nthreads; t++ {
			role := rnd.Intn(4)
			nops := 1 + rnd.Intn(3)
			delay := time.Duration(rnd.Intn(20000)) * time.Microsecond
			short := rnd.Intn(6) == 0
			wg.Add(1)
			go func(t, role, nops int) {
				defer wg.Done()
				time.Sleep(delay)
				for i := 0; i < nops; i++ {
					switch role {
					case 0, 1:
						c := ctx
						if short {
							var cf context.CancelFunc
							c, cf = context.WithTimeout(ctx, 2*time.Millisecond)
							defer cf()
						}
						op(t, "deref", "@f", c)
					case 2:
						op(t, "done?", "(future-done? f)", ctx)
						op(t, "cancelled?", "(future-cancelled? f)", ctx)
					case 3:
						op(t, "cancel", "(future-cancel f)", ctx)
						op(t, "cancelled?", "(future-cancelled? f)", ctx)
						op(t, "done?", "(future-done? f)", ctx)
					}
				}
			}(t, role, nops)
		}
		done := make(chan struct{})
		go func() { wg.Wait(); close(done) }()
		select {
		case <-done:
		case <-time.After(10 * time.Second):
			return fmt.Errorf("HANG: future scenario (%s) did not finish", body)
		}
		// let the body finish, then make sure everybody sees the final state
		op(0, "deref", "@f", ctx)
		op(0, "done?", "(future-done? f)", ctx)
		op(0, "cancelled?", "(future-cancelled? f)", ctx)
		emitBodyCtx()
	}
	time.Sleep(2 * time.Millisecond)
	runs := 0
	for _, eff := range probe.effects() {
		if eff.T == "kw" && eff.S == "body" {
			runs++
		}
	}
	rec.emit(FutEvent{Ev: "end", Val: runs})
	return nil
}

func cmdFutures(args []string) {
	fs := flag.NewFlagSet("futures", flag.ExitOnError)
	n := fs.Int("n", 100, "number of random scenarios")
	seed := fs.Int64("seed", 1, "random seed")
	out := fs.String("out", "futures.ndjson", "trace file")
	fs.Parse(args)
	rnd := rand.New(rand.NewSource(*seed))
	rec := &futRecorder{}
	concurrent.VerifHook = rec.hook
	f, err := os.Create(*out)
	if err != nil {
		fmt.Fprintln(os.Stderr, err)
		os.Exit(2)
	}
	w := bufio.NewWriter(f)
	enc := json.NewEncoder(w)
	bodies := []string{"value", "error", "sleeps", "ignores"}
	hangs := []string{}
	total := 0
	run := func(body string, det bool, deadctx ...bool) {
		rec.events = rec.events[:0]
		total++
		if e := runFutureScenario(rec, rnd, body, det && len(deadctx) != 3, len(deadctx) == 1, len(deadctx) == 2, len(deadctx) == 3); e != nil {
			if strings.HasPrefix(e.Error(), "HANG") {
				hangs = append(hangs, e.Error())
				return
			}
			fmt.Fprintln(os.Stderr, "infra:", e)
			os.Exit(2)
		}
		rec.mu.Lock()
		for _, e := range rec.events {
			enc.Encode(e)
		}
		rec.mu.Unlock()
	}
	for _, b := range bodies {
		run(b, true) // the model's counterexample schedule, deterministically
	}
	for _, b := range bodies {
		run(b, true, true) // derefs with an ended caller context while the body cannot finish
	}
	for _, b := range []string{"value", "ignores", "value", "error"} {
		run(b, true, true, true) // the canceller held between its check and its mark
	}
	for i := 0; i < 8; i++ {
		run(bodies[i%len(bodies)], true, true, true, true) // predicates polled while another thread cancels
	}
	futBornDead = true
	for _, b := range bodies {
		run(b, false) // the creator's context ends before the body starts
	}
	futBornDead = false
	for i := 0; i < *n; i++ {
		run(bodies[rnd.Intn(len(bodies))], false)
	}
	w.Flush()
	f.Close()
	b, _ := json.Marshal(map[string]interface{}{"scenarios": total, "hangs": hangs})
	fmt.Fprintf(protoOut, "%s\n", b)
}
