package main

import (
	"context"
	"fmt"
	"os"

	"github.com/jig/lisp/repl"
)

// replchild: run the real REPL loop (repl.Execute) on this process's stdin / stdout.
// Used as a child process by the "replsession" kind: the parent pipes the lines of one
// session in and records everything the loop prints.
func init() {
	commands["replchild"] = func(args []string) {
		os.Stdout = protoOut
		ns, _, err := NewLoadedEnv()
		if err != nil {
			fmt.Fprintln(os.Stderr, "env:", err)
			os.Exit(3)
		}
		if err := repl.Execute(context.Background(), ns); err != nil {
			fmt.Fprintln(os.Stderr, "execute:", err)
			os.Exit(4)
		}
	}
}
