package main

import (
	"bytes"
	"context"
	"fmt"
	"os"
	"os/exec"
	"strings"
	"time"

	"github.com/jig/lisp"
	"github.com/jig/lisp/repl"
)

// replchild: run the real REPL loop (repl.Execute) on this process's stdin / stdout.
// Used as a child process by the "replsession" kind: the parent pipes the lines of one
// session in and records everything the loop prints.
func init() {
	commands["replchild"] = func(args []string) {
		os.Stdout = protoOut
		ns, _, err := NewLoadedEnv()
		if err != nil {
			fmt.Fprintln(os.Stderr, "env:", err)
			os.Exit(3)
		}
		if err := repl.Execute(context.Background(), ns); err != nil {
			fmt.Fprintln(os.Stderr, "execute:", err)
			os.Exit(4)
		}
	}
}

type replOut struct {
	K string `json:"k"` // val | thr | err
	V Node   `json:"v"`
}

type replCase struct {
	Lines   []string  `json:"lines"`
	Outs    []replOut `json:"outs"`
	Pending int       `json:"pending"`
	Bad     bool      `json:"bad"`
}

func init() {
	kinds["replsession"] = runReplSession
}

const (
	replLispErr = "\x1b[31mLisp Error:\x1b[0m "
	replGoErr   = "Error: "
)

// runReplSession pipes the lines of one session into the real REPL loop (a child process
// running repl.Execute) and compares the sequence of output lines with the specification
// (spec/Repl.tla).  -prop C16 judges how the loop SEGMENTS the input (which lines end an
// expression, which report an error); -prop C19 judges the values printed.
func runReplSession(c *Case) Verdict {
	v := Verdict{Class: "session"}
	if c.Bad {
		v.Verdict = "abstain"
		return v
	}
	home, err := os.MkdirTemp("", "replhome")
	if err != nil {
		return Verdict{Verdict: "infra", Note: err.Error()}
	}
	defer os.RemoveAll(home)
	ctx, cancel := context.WithTimeout(context.Background(), 30*time.Second)
	defer cancel()
	cmd := exec.CommandContext(ctx, os.Args[0], "replchild")
	cmd.Env = append(os.Environ(), "HOME="+home)
	cmd.Stdin = strings.NewReader(strings.Join(c.Lines, "\n") + "\n")
	var stdout, stderr bytes.Buffer
	cmd.Stdout = &stdout
	cmd.Stderr = &stderr
	runErr := cmd.Run()
	if ctx.Err() != nil {
		v.Verdict, v.Key, v.Note = "hang", "repl:hang", "the REPL loop did not return at end of input within 30 s"
		return v
	}
	if runErr != nil {
		if strings.Contains(stderr.String(), "panic:") || strings.Contains(stderr.String(), "goroutine ") {
			v.Verdict, v.Key, v.Note = "panic", "repl:crash", "the REPL process died: "+tailStr(stderr.String(), 400)
			return v
		}
		return Verdict{Verdict: "infra", Note: "replchild: " + runErr.Error() + " " + tailStr(stderr.String(), 300)}
	}
	var got []string
	for _, l := range strings.Split(stdout.String(), "\n") {
		if l != "" {
			got = append(got, l)
		}
	}
	kindOf := func(l string) string {
		switch {
		case strings.HasPrefix(l, replLispErr+"«go-error"):
			return "err"
		case strings.HasPrefix(l, replLispErr):
			return "thr"
		case strings.HasPrefix(l, replGoErr):
			return "err"
		}
		return "val"
	}
	pattern := func(ks []string) string { return strings.Join(ks, ",") }
	var want, have []string
	for _, l := range got {
		have = append(have, kindOf(l))
	}
	for i, o := range c.Outs {
		k := o.K
		// a host error of an unnamed class (a reflect panic inside a builtin) surfaces as an error object or as a
		// thrown message: either is an error line
		if k == "err" && strings.HasPrefix(o.V.S, "eval:") && !exactErrClasses[strings.TrimPrefix(o.V.S, "eval:")] &&
			i < len(have) && have[i] == "thr" {
			k = "thr"
		}
		want = append(want, k)
	}
	v.Obs = map[string]interface{}{"stdout": got}
	if pattern(want) != pattern(have) {
		if propFlag == "C16" {
			v.Verdict, v.Key = "mismatch", "repl:segmentation"
			v.Note = fmt.Sprintf("session %q: the loop printed [%s] where the specification prescribes [%s]", c.Lines, pattern(have), pattern(want))
			return v
		}
		// C19: the forms of the session were complete expressions typed one by one (possibly over several lines,
		// with comments): the loop evaluating fewer / more / other things than the same text read as a whole does
		// is a change of meaning by the route of delivery
		v.Verdict, v.Key = "mismatch", "repl:session-differs"
		v.Note = fmt.Sprintf("session %q: the loop printed [%s] where the specification prescribes [%s]", c.Lines, pattern(have), pattern(want))
		return v
	}
	if propFlag == "C16" {
		v.Verdict = "ok"
		return v
	}
	for i, o := range c.Outs {
		if o.K == "err" || !isDataNode(o.V) || want[i] != o.K {
			continue
		}
		text := got[i]
		if o.K == "thr" {
			text = strings.TrimPrefix(text, replLispErr)
		}
		back, rerr := lisp.READ(text, nil, nil)
		if rerr != nil {
			v.Verdict, v.Key = "mismatch", "repl:value:unreadable"
			v.Note = fmt.Sprintf("session %q: output %d %q does not read back (%v); expected %s", c.Lines, i+1, text, rerr, Canon(o.V))
			return v
		}
		if !EqualNode(o.V, FromMal(back)) {
			v.Verdict, v.Key = "mismatch", "repl:value"
			v.Note = fmt.Sprintf("session %q: output %d is %q, the specification prescribes %s", c.Lines, i+1, text, Canon(o.V))
			return v
		}
	}
	v.Verdict = "ok"
	return v
}

func tailStr(s string, n int) string {
	if len(s) > n {
		return s[len(s)-n:]
	}
	return s
}
